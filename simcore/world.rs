//! The discrete-event world: virtual clock, event queue, pipes, simulated shell
//! processes, injected faults, decision tape and event log. Single-threaded; the
//! only "real" thing it touches is the filesystem (state files, Touch, snapshots).

use std::cmp::Reverse;
use std::collections::BTreeMap;
use std::collections::BinaryHeap;
use std::collections::VecDeque;
use std::io;
use std::io::Write;

use subprocess::ExitStatus;

use super::scenario::*;

pub const PAGE: usize = 4096;
/// processed events + hook entries per run (a payload written byte by byte needs millions)
const DEFAULT_MAX_EVENTS: u64 = 4_000_000;
/// entries in the recorded history per run: what bounds the memory of a scrut that spins
const MAX_LOGGED: u64 = 250_000;

pub const EPIPE: i32 = 32;
pub const EINTR: i32 = 4;

// ------------------------------------------------------------------ PRNG

/// splitmix64 -> xoshiro256**; kept local so that no crate upgrade changes a replay
pub struct Rng {
    s: [u64; 4],
}

impl Rng {
    pub fn new(seed: u64) -> Self {
        let mut z = seed;
        let mut next = || {
            z = z.wrapping_add(0x9E37_79B9_7F4A_7C15);
            let mut x = z;
            x = (x ^ (x >> 30)).wrapping_mul(0xBF58_476D_1CE4_E5B9);
            x = (x ^ (x >> 27)).wrapping_mul(0x94D0_49BB_1331_11EB);
            x ^ (x >> 31)
        };
        Rng {
            s: [next(), next(), next(), next()],
        }
    }
    pub fn next_u64(&mut self) -> u64 {
        let r = self.s[1].wrapping_mul(5).rotate_left(7).wrapping_mul(9);
        let t = self.s[1] << 17;
        self.s[2] ^= self.s[0];
        self.s[3] ^= self.s[1];
        self.s[1] ^= self.s[2];
        self.s[0] ^= self.s[3];
        self.s[2] ^= t;
        self.s[3] = self.s[3].rotate_left(45);
        r
    }
    /// uniform in [0, n)
    pub fn below(&mut self, n: u64) -> u64 {
        if n <= 1 {
            return 0;
        }
        // rejection-free multiply-shift is fine here (bias < 2^-32 for our n)
        ((self.next_u64() as u128 * n as u128) >> 64) as u64
    }
}

// ------------------------------------------------------------------ pipes

pub struct Pipe {
    pub buf: VecDeque<u8>,
    pub cap: usize,
    pub writers: u32,
    pub readers: u32,
    /// owner process and which of its descriptors this is (0 stdin, 1 stdout, 2 stderr)
    pub owner: u32,
    pub fd: u8,
    pub blocked_writers: Vec<u32>,
    pub blocked_reader: Option<u32>,
}

impl Pipe {
    fn free(&self) -> usize {
        self.cap.saturating_sub(self.buf.len())
    }
}

// ------------------------------------------------------------------ processes

#[derive(Clone, Copy, PartialEq, Eq, Debug)]
enum Mode {
    Unknown,
    Template,
    Script,
}

pub enum StdinSrc {
    Pipe(usize),
    Data(VecDeque<u8>),
    /// a regular file, read line by line when the shell gets to it (as bash does: what is in
    /// the file at that moment, at the position the shell has reached)
    File { file: std::fs::File, offset: u64 },
    Closed,
}

struct Running {
    nonce: Option<String>,
    ops: Vec<Op>,
    pc: usize,
    pending: Option<(u8, VecDeque<u8>)>,
    repeat: Option<(u8, Vec<u8>, u64)>,
    wrote: [u64; 2],
    blocked_since: Option<u64>,
    blocked_ns: u64,
}

pub struct Proc {
    pub pid: u32,
    pub env: BTreeMap<String, String>,
    pub stdin: StdinSrc,
    /// pipe ids behind fd 1 and fd 2 (None: /dev/null or closed)
    pub out: [Option<usize>; 2],
    pub status: Option<ExitStatus>,
    mode: Mode,
    linebuf: Vec<u8>,
    state_dir: Option<String>,
    persist: Option<u8>,
    template_logged: bool,
    state_read_done: bool,
    commands_started: u32,
    last_status: i32,
    last_nonce: Option<String>,
    in_cmd: Option<String>,
    cur: Option<Running>,
    hung: bool,
    /// a catchable signal that arrived while a foreground command was running: bash acts on
    /// it (EXIT trap, then death) only once that command has finished
    pending_sig: Option<u8>,
    sleeping: bool,
}

struct Bg {
    pid: u32,
    held: Vec<usize>,
    out_fd: u8,
    out: Vec<u8>,
}

#[derive(PartialEq, Eq, PartialOrd, Ord, Clone, Copy, Debug)]
enum Ev {
    Step(u32),
    BgEnd(u32),
}

pub enum WaitFor<'a> {
    Poll(&'a [(Option<usize>, bool)]),
    ProcExit(u32),
    Readable(usize),
    Writable(usize),
    Nothing,
}

pub enum AbortMode {
    Panic,
    Exit,
}

pub enum LogSink {
    Memory,
    File(io::BufWriter<std::fs::File>),
}

pub struct World {
    pub sc: SimScenario,
    pub now: u64,
    seq: u64,
    queue: BinaryHeap<Reverse<(u64, u64, Ev)>>,
    pub procs: Vec<Proc>,
    pub pipes: Vec<Pipe>,
    bgs: Vec<Option<Bg>>,
    rng: Rng,
    tape_pos: usize,
    pub tape_out: Vec<u64>,
    pub log: Vec<LogEntry>,
    sink: LogSink,
    pub abort_mode: AbortMode,
    pub popen_attempts: u32,
    pub events: u64,
    pub stall_total_ns: u64,
    pub ovh: u64,
    max_events: u64,
    logged: u64,
    pub drained: bool,
    pub fs_calls: BTreeMap<String, u32>,
}

pub const POLLIN: u8 = 1;
pub const POLLOUT: u8 = 4;
pub const POLLERR: u8 = 8;
pub const POLLHUP: u8 = 16;

impl World {
    pub fn new(sc: SimScenario, sink: LogSink, abort_mode: AbortMode) -> World {
        let rng = Rng::new(sc.seed);
        let max_events = if sc.max_events == 0 {
            DEFAULT_MAX_EVENTS
        } else {
            sc.max_events
        };
        World {
            sc,
            now: 0,
            seq: 0,
            queue: BinaryHeap::new(),
            procs: vec![],
            pipes: vec![],
            bgs: vec![],
            rng,
            tape_pos: 0,
            tape_out: vec![],
            log: vec![],
            sink,
            abort_mode,
            popen_attempts: 0,
            events: 0,
            stall_total_ns: 0,
            ovh: 0,
            max_events,
            logged: 0,
            drained: false,
            fs_calls: BTreeMap::new(),
        }
    }

    // -------------------------------------------------------------- basics

    /// Every run-time decision goes through here (DESIGN §3.5).
    pub fn choose(&mut self, n: u64) -> u64 {
        let pick = if let Some(tape) = &self.sc.tape {
            let v = tape.get(self.tape_pos).copied().unwrap_or(0);
            if n == 0 { 0 } else { v.min(n - 1) }
        } else {
            self.rng.below(n)
        };
        self.tape_pos += 1;
        self.tape_out.push(pick);
        pick
    }

    pub fn log(&mut self, ev: LogEv) {
        self.logged += 1;
        if self.logged == MAX_LOGGED {
            // (the abort writes one more entry; `==` keeps it from coming back here)
            self.abort(SimAbort::EventCap);
        }
        self.seq += 1;
        let entry = LogEntry {
            seq: self.seq,
            t: self.now,
            ovh: self.ovh,
            ev,
        };
        if let LogSink::File(f) = &mut self.sink {
            if let Ok(s) = serde_json::to_string(&entry) {
                let _ = f.write_all(s.as_bytes());
                let _ = f.write_all(b"\n");
                let _ = f.flush();
            }
        } else {
            self.log.push(entry);
        }
    }

    pub fn flush_tape(&mut self) {
        if let LogSink::File(f) = &mut self.sink {
            let rec = serde_json::json!({"ev": "tape", "picks": self.tape_out,
                "end_time_ns": self.now, "events": self.events, "stall_total_ns": self.stall_total_ns});
            let _ = f.write_all(rec.to_string().as_bytes());
            let _ = f.write_all(b"\n");
            let _ = f.flush();
        }
    }

    fn schedule(&mut self, at: u64, ev: Ev) {
        self.seq += 1;
        self.queue.push(Reverse((at.max(self.now), self.seq, ev)));
    }

    pub fn abort(&mut self, a: SimAbort) -> ! {
        match &a {
            SimAbort::HangForever(site) => self.log(LogEv::HangForever { site: site.clone() }),
            SimAbort::EventCap => self.log(LogEv::EventCap),
        }
        self.flush_tape();
        match self.abort_mode {
            AbortMode::Panic => std::panic::panic_any(a),
            AbortMode::Exit => std::process::exit(97),
        }
    }

    /// Called at the entry of every hook: the parent pays for the system call and may be
    /// descheduled for a while.
    pub fn hook_entry(&mut self) {
        // (a scrut that calls into the operating system without end - also one that never
        // lets virtual time pass - is stopped like a simulation that never ends)
        self.events += 1;
        if self.events > self.max_events {
            self.abort(SimAbort::EventCap);
        }
        self.now += self.sc.swarm.syscall_cost_ns;
        self.ovh += self.sc.swarm.syscall_cost_ns;
        if self.sc.swarm.stall_per_mille > 0 && self.sc.swarm.stall_max_ns > 0 {
            if self.choose(1000) < self.sc.swarm.stall_per_mille as u64 {
                let ns = 1 + self.choose(self.sc.swarm.stall_max_ns);
                self.now += ns;
                self.stall_total_ns += ns;
                self.ovh += ns;
                self.log(LogEv::Stall { ns });
            }
        }
        self.run_due();
    }

    // -------------------------------------------------------------- event loop

    fn run_due(&mut self) {
        while let Some(Reverse((t, _, _))) = self.queue.peek() {
            if *t > self.now {
                break;
            }
            let Reverse((_, _, ev)) = self.queue.pop().unwrap();
            self.run_event(ev);
        }
    }

    fn run_event(&mut self, ev: Ev) {
        self.events += 1;
        if self.events > self.max_events {
            self.abort(SimAbort::EventCap);
        }
        match ev {
            Ev::Step(pid) => self.step(pid),
            Ev::BgEnd(id) => self.bg_end(id),
        }
    }

    pub fn holds(&self, w: &WaitFor) -> bool {
        match w {
            WaitFor::Poll(fds) => fds.iter().any(|(p, rd)| self.revents(*p, *rd) != 0),
            WaitFor::ProcExit(pid) => self.procs[*pid as usize].status.is_some(),
            WaitFor::Readable(p) => {
                let p = &self.pipes[*p];
                !p.buf.is_empty() || p.writers == 0
            }
            WaitFor::Writable(p) => {
                let p = &self.pipes[*p];
                p.free() > 0 || p.readers == 0
            }
            WaitFor::Nothing => false,
        }
    }

    /// Block the parent until `w` holds (true) or the deadline is reached (false).
    pub fn advance_until(&mut self, deadline: Option<u64>, w: &WaitFor, site: &str) -> bool {
        loop {
            self.run_due();
            if self.holds(w) {
                return true;
            }
            if let Some(d) = deadline {
                if self.now >= d {
                    return false;
                }
            }
            let next = self.queue.peek().map(|Reverse((t, _, _))| *t);
            match (next, deadline) {
                (None, None) => self.abort(SimAbort::HangForever(site.to_string())),
                (None, Some(d)) => {
                    self.now = d;
                    return false;
                }
                (Some(t), Some(d)) if t > d => {
                    self.now = d;
                    return false;
                }
                (Some(t), Some(d)) if t == d => {
                    // exact tie between an event and the deadline: both orders are legal
                    self.now = d;
                    let deadline_first = match self.sc.swarm.tie {
                        1 => true,
                        2 => false,
                        _ => self.choose(2) == 0,
                    };
                    if deadline_first {
                        return false;
                    }
                    // let exactly the events of this instant happen, then the deadline
                    self.run_due();
                    return self.holds(w);
                }
                (Some(t), _) => {
                    self.now = self.now.max(t);
                }
            }
        }
    }

    /// After scrut is done: let orphaned processes run on (DESIGN §3.2).
    pub fn drain(&mut self) {
        if self.drained {
            return;
        }
        self.drained = true;
        let dirs = self.sc.snapshot_dirs.clone();
        for d in &dirs {
            let entries = list_tree(d);
            self.log(LogEv::FsSnapshot {
                phase: "exit".into(),
                root: d.clone(),
                entries,
            });
        }
        self.log(LogEv::DrainBegin);
        let mut budget = 20_000u32;
        while let Some(Reverse((t, _, ev))) = self.queue.pop() {
            self.now = self.now.max(t);
            self.run_event(ev);
            budget -= 1;
            if budget == 0 {
                break;
            }
        }
        let alive = self.procs.iter().filter(|p| p.status.is_none()).count() as u32;
        self.log(LogEv::DrainEnd { alive });
    }

    // -------------------------------------------------------------- descriptors (parent side)

    pub fn new_pipe(&mut self, owner: u32, fd: u8) -> usize {
        self.pipes.push(Pipe {
            buf: VecDeque::new(),
            cap: self.sc.swarm.pipe_capacity.max(PAGE),
            writers: 0,
            readers: 0,
            owner,
            fd,
            blocked_writers: vec![],
            blocked_reader: None,
        });
        self.pipes.len() - 1
    }

    /// Linux pipe_poll()
    pub fn revents(&self, pipe: Option<usize>, for_read: bool) -> u8 {
        let Some(p) = pipe else { return 0 };
        let p = &self.pipes[p];
        let mut r = 0;
        if for_read {
            if !p.buf.is_empty() {
                r |= POLLIN;
            }
            if p.writers == 0 {
                r |= POLLHUP;
            }
        } else {
            if p.free() >= PAGE {
                r |= POLLOUT;
            }
            if p.readers == 0 {
                r |= POLLERR;
            }
        }
        r
    }

    /// poll(2) over up to three parent-side descriptors; timeout in ns (already truncated by the caller)
    pub fn sys_poll(&mut self, fds: &[(Option<usize>, bool)], timeout_ns: Option<u64>) -> Vec<u8> {
        self.hook_entry();
        let deadline = timeout_ns.map(|t| self.now + t);
        self.advance_until(deadline, &WaitFor::Poll(fds), "poll");
        fds.iter().map(|(p, rd)| self.revents(*p, *rd)).collect()
    }

    pub fn sys_write(&mut self, pipe: usize, data: &[u8]) -> io::Result<usize> {
        self.hook_entry();
        loop {
            if self.pipes[pipe].readers == 0 {
                return Err(io::Error::from_raw_os_error(EPIPE));
            }
            let free = self.pipes[pipe].free();
            if free > 0 {
                let n = free.min(data.len());
                self.pipes[pipe].buf.extend(&data[..n]);
                if let Some(r) = self.pipes[pipe].blocked_reader.take() {
                    self.schedule(self.now, Ev::Step(r));
                }
                return Ok(n);
            }
            self.advance_until(None, &WaitFor::Writable(pipe), "write(stdin)");
        }
    }

    pub fn sys_read(&mut self, pipe: usize, max: usize) -> io::Result<Vec<u8>> {
        self.hook_entry();
        self.advance_until(None, &WaitFor::Readable(pipe), "read(pipe)");
        let p = &mut self.pipes[pipe];
        let n = p.buf.len().min(max);
        let data: Vec<u8> = p.buf.drain(..n).collect();
        if n > 0 {
            let ws: Vec<u32> = std::mem::take(&mut self.pipes[pipe].blocked_writers);
            for w in ws {
                self.schedule(self.now, Ev::Step(w));
            }
        }
        Ok(data)
    }

    pub fn parent_close_read(&mut self, pipe: usize) {
        let p = &mut self.pipes[pipe];
        p.readers = p.readers.saturating_sub(1);
        if p.readers == 0 {
            let ws: Vec<u32> = std::mem::take(&mut p.blocked_writers);
            for w in ws {
                self.schedule(self.now, Ev::Step(w));
            }
        }
    }

    pub fn parent_close_write(&mut self, pipe: usize) {
        let p = &mut self.pipes[pipe];
        p.writers = p.writers.saturating_sub(1);
        if p.writers == 0 {
            if let Some(r) = p.blocked_reader.take() {
                self.schedule(self.now, Ev::Step(r));
            }
        }
    }

    // -------------------------------------------------------------- spawn

    pub fn apply_peer_actions(&mut self, nth: u32) {
        let acts: Vec<PeerAction> = self
            .sc
            .peer
            .iter()
            .filter(|a| a.at_spawn == nth)
            .cloned()
            .collect();
        for a in acts {
            let ok = match a.action.as_str() {
                "mkdir" => std::fs::create_dir_all(&a.path).is_ok(),
                "rmdir" => std::fs::remove_dir_all(&a.path).is_ok(),
                "touch" => std::fs::write(&a.path, b"peer").is_ok(),
                _ => false,
            };
            self.log(LogEv::Peer {
                action: a.action,
                path: a.path,
                ok,
            });
        }
    }

    /// Fault::OutputClosed: point file descriptors 1 and 2 of THIS process at a pipe nobody reads
    pub fn output_closed_fault(&mut self, nth: u32) {
        let hit = self.sc.faults.iter().find_map(|f| match f {
            Fault::OutputClosed { nth: n, which } if *n == nth => Some(*which),
            _ => None,
        });
        let Some(which) = hit else {
            return;
        };
        extern "C" {
            fn dup2(oldfd: i32, newfd: i32) -> i32;
        }
        if let Ok((r, w)) = std::io::pipe() {
            use std::os::fd::AsRawFd;
            drop(r);
            unsafe {
                if which != 2 {
                    dup2(w.as_raw_fd(), 1);
                }
                if which != 1 {
                    dup2(w.as_raw_fd(), 2);
                }
            }
            drop(w);
            self.log(LogEv::Fault {
                kind: match which {
                    1 => "output_closed:stdout",
                    2 => "output_closed:stderr",
                    _ => "output_closed",
                }
                .into(),
                pid: None,
            });
        }
    }

    pub fn spawn_fault(&self, nth: u32) -> Option<i32> {
        self.sc.faults.iter().find_map(|f| match f {
            Fault::Spawn { nth: n, errno } if *n == nth => Some(*errno),
            _ => None,
        })
    }

    pub fn poll_eintr(&self, proc_: u32, nth: u32) -> bool {
        self.sc
            .faults
            .iter()
            .any(|f| matches!(f, Fault::PollEintr { proc: p, nth: n } if *p == proc_ && *n == nth))
    }

    pub fn read_fault(&self, proc_: u32, nth: u32) -> Option<i32> {
        self.sc.faults.iter().find_map(|f| match f {
            Fault::ReadErr {
                proc: p,
                nth: n,
                errno,
            } if *p == proc_ && *n == nth => Some(*errno),
            _ => None,
        })
    }

    /// a filesystem operation of scrut at a hooked site: fail it if the scenario says so
    pub fn fs_fault(&mut self, site: &str) -> Option<i32> {
        let n = self.fs_calls.entry(site.to_string()).or_insert(0);
        let nth = *n;
        *n += 1;
        let hit = self.sc.faults.iter().find_map(|f| match f {
            Fault::Fs { site: s, nth: k, errno } if s == site && *k == nth => Some(*errno),
            _ => None,
        });
        if let Some(errno) = hit {
            self.log(LogEv::Fault {
                kind: format!("fs_error:{}:{}", site, errno),
                pid: None,
            });
        }
        hit
    }

    pub fn wait_fault(&self, proc_: u32) -> Option<i32> {
        self.sc.faults.iter().find_map(|f| match f {
            Fault::Wait { proc: p, errno } if *p == proc_ => Some(*errno),
            _ => None,
        })
    }

    /// Create the child. Pipes are given as ids; counts of reader/writer ends are set here.
    pub fn spawn(
        &mut self,
        env: BTreeMap<String, String>,
        stdin: StdinSrc,
        out: [Option<usize>; 2],
    ) -> u32 {
        let pid = self.procs.len() as u32;
        if let StdinSrc::Pipe(p) = &stdin {
            self.pipes[*p].readers += 1;
            self.pipes[*p].writers += 1; // parent end
        }
        for (i, o) in out.iter().enumerate() {
            if let Some(p) = o {
                self.pipes[*p].writers += 1;
                // one parent read end per distinct pipe
                if i == 0 || out[0] != out[1] {
                    self.pipes[*p].readers += 1;
                }
            }
        }
        self.procs.push(Proc {
            pid,
            env,
            stdin,
            out,
            status: None,
            mode: Mode::Unknown,
            linebuf: vec![],
            state_dir: None,
            persist: None,
            template_logged: false,
            state_read_done: false,
            commands_started: 0,
            last_status: 0,
            last_nonce: None,
            in_cmd: None,
            cur: None,
            hung: false,
            pending_sig: None,
            sleeping: false,
        });
        let lat = 1 + self.choose(self.sc.swarm.spawn_latency_max_ns.max(1));
        self.schedule(self.now + lat, Ev::Step(pid));
        pid
    }

    /// wait() failing with ECHILD means somebody else has reaped the child: it is gone
    pub fn reaped_elsewhere(&mut self, pid: u32) {
        if self.procs[pid as usize].status.is_none() {
            self.finish(pid, ExitStatus::Signaled(9), false);
        }
    }

    pub fn kill(&mut self, pid: u32, sig: u8) {
        self.log(LogEv::Kill { pid, sig });
        let p = &mut self.procs[pid as usize];
        if p.status.is_some() {
            return;
        }
        if sig != 9 && (p.sleeping || p.hung) {
            // bash defers the handling of TERM/INT/HUP while it waits for a foreground command
            p.pending_sig = Some(sig);
            return;
        }
        self.finish(pid, ExitStatus::Signaled(sig), sig != 9);
    }

    // -------------------------------------------------------------- the simulated shell

    fn step(&mut self, pid: u32) {
        let mut guard = 0u32;
        loop {
            guard += 1;
            if guard > 2_000_000 {
                self.abort(SimAbort::EventCap);
            }
            let pi = pid as usize;
            if self.procs[pi].status.is_some() || self.procs[pi].hung {
                return;
            }
            if self.procs[pi].cur.is_some() {
                if !self.step_running(pid) {
                    return;
                }
                continue;
            }
            // reading the script
            match self.read_line(pid) {
                Line::Data(l) => self.handle_line(pid, l),
                Line::WouldBlock => return,
                Line::Eof => {
                    if let Some(nonce) = self.procs[pi].in_cmd.take() {
                        // the script ended inside a command text: run what we have
                        self.start_cmd(pid, nonce, false);
                        continue;
                    }
                    let st = self.procs[pi].last_status;
                    self.finish(pid, ExitStatus::Exited((st & 0xff) as u32), true);
                    return;
                }
            }
        }
    }

    /// returns false when the process cannot continue right now
    fn step_running(&mut self, pid: u32) -> bool {
        let pi = pid as usize;
        // 1. pending write
        let pending_fd = self.procs[pi]
            .cur
            .as_ref()
            .and_then(|r| r.pending.as_ref().map(|(fd, _)| *fd));
        if let Some(fd) = pending_fd {
            let pipe = self.procs[pi].out[(fd - 1) as usize];
            let Some(pipe) = pipe else {
                // /dev/null or closed descriptor: data vanishes
                self.procs[pi].cur.as_mut().unwrap().pending = None;
                return true;
            };
            if self.pipes[pipe].readers == 0 {
                // SIGPIPE
                self.finish(pid, ExitStatus::Signaled(13), true);
                return false;
            }
            let free = self.pipes[pipe].free();
            // the shell's own `echo` of a divider line is one write of less than PIPE_BUF bytes:
            // atomic - it arrives whole or not at all (POSIX), unlike what a command writes
            let atomic_len = {
                let r = self.procs[pi].cur.as_ref().unwrap();
                match (&r.nonce, &r.pending) {
                    (None, Some((_, d))) if d.len() <= 4096 => Some(d.len()),
                    _ => None,
                }
            };
            if free == 0 || atomic_len.map(|n| free < n).unwrap_or(false) {
                if !self.pipes[pipe].blocked_writers.contains(&pid) {
                    self.pipes[pipe].blocked_writers.push(pid);
                }
                let now = self.now;
                let r = self.procs[pi].cur.as_mut().unwrap();
                if r.blocked_since.is_none() {
                    r.blocked_since = Some(now);
                }
                return false;
            }
            let chunk_max = self.sc.swarm.chunk_max.max(1) as u64;
            let chunk = match atomic_len {
                Some(n) => n,
                None => 1 + self.choose(chunk_max) as usize,
            };
            let now = self.now;
            let r = self.procs[pi].cur.as_mut().unwrap();
            if let Some(b) = r.blocked_since.take() {
                r.blocked_ns += now - b;
            }
            let (_, data) = r.pending.as_mut().unwrap();
            let n = free.min(chunk).min(data.len());
            let bytes: Vec<u8> = data.drain(..n).collect();
            let done = data.is_empty();
            r.wrote[(fd - 1) as usize] += n as u64;
            if done {
                r.pending = None;
            }
            self.pipes[pipe].buf.extend(bytes);
            if !done {
                let gap = self.choose(self.sc.swarm.chunk_gap_max_ns + 1);
                self.schedule(self.now + gap, Ev::Step(pid));
                return false;
            }
            return true;
        }
        // 2. repeat block
        {
            let r = self.procs[pi].cur.as_mut().unwrap();
            if let Some((fd, unit, left)) = r.repeat.as_mut() {
                if *left == 0 || unit.is_empty() {
                    r.repeat = None;
                } else {
                    let per = (65536 / unit.len()).max(1) as u64;
                    let k = per.min(*left);
                    let mut d = VecDeque::with_capacity(unit.len() * k as usize);
                    for _ in 0..k {
                        d.extend(unit.iter());
                    }
                    *left -= k;
                    let fd = *fd;
                    r.pending = Some((fd, d));
                }
                return true;
            }
        }
        // the foreground command is over: a deferred signal is acted upon now
        self.procs[pi].sleeping = false;
        if let Some(sig) = self.procs[pi].pending_sig.take() {
            self.finish(pid, ExitStatus::Signaled(sig), true);
            return false;
        }
        // 3. next op
        let (op, nonce) = {
            let r = self.procs[pi].cur.as_mut().unwrap();
            if r.pc >= r.ops.len() {
                (None, r.nonce.clone())
            } else {
                r.pc += 1;
                (Some(r.ops[r.pc - 1].clone()), r.nonce.clone())
            }
        };
        let Some(op) = op else {
            // falling off the end of a program = status 0 (an echo keeps `$?`)
            if nonce.is_some() {
                self.end_cmd(pid, Some(0));
            } else {
                self.procs[pi].cur = None;
                self.procs[pi].last_status = 0;
            }
            return true;
        };
        match op {
            Op::Out { fd, data } => {
                let fd = if fd == 2 { 2 } else { 1 };
                self.procs[pi].cur.as_mut().unwrap().pending = Some((fd, data.0.into()));
            }
            Op::OutRepeat { fd, unit, times } => {
                let fd = if fd == 2 { 2 } else { 1 };
                self.procs[pi].cur.as_mut().unwrap().repeat = Some((fd, unit.0, times));
            }
            Op::Sleep { ns } => {
                self.procs[pi].sleeping = true;
                self.schedule(self.now + ns, Ev::Step(pid));
                return false;
            }
            Op::Status { code } => self.end_cmd(pid, Some(code)),
            Op::ExitShell { code } => {
                self.finish(pid, ExitStatus::Exited((code & 0xff) as u32), true);
                return false;
            }
            Op::Die { sig } => {
                self.finish(pid, ExitStatus::Signaled(sig), sig != 9);
                return false;
            }
            Op::Hang => {
                self.procs[pi].hung = true;
                return false;
            }
            Op::CloseFd { fd } => {
                let idx = if fd == 2 { 1 } else { 0 };
                if let Some(p) = self.procs[pi].out[idx].take() {
                    self.drop_writer(p);
                }
            }
            Op::Bg {
                hold,
                life_ns,
                out_fd,
                out,
            } => {
                let mut held = vec![];
                if hold {
                    for o in self.procs[pi].out.iter().flatten() {
                        held.push(*o);
                    }
                    for p in &held {
                        self.pipes[*p].writers += 1;
                    }
                }
                self.bgs.push(Some(Bg {
                    pid,
                    held,
                    out_fd,
                    out: out.0,
                }));
                let id = (self.bgs.len() - 1) as u32;
                self.schedule(self.now + life_ns, Ev::BgEnd(id));
            }
            Op::DeepTree { levels, name_len } => {
                let base = self.procs[pi].env.get("TMPDIR").cloned().unwrap_or_else(|| "/nonexistent".into());
                if let Ok(orig) = std::env::current_dir() {
                    if std::env::set_current_dir(&base).is_ok() {
                        let name = "d".repeat(name_len.max(1) as usize);
                        for _ in 0..levels {
                            if std::fs::create_dir(&name).is_err() || std::env::set_current_dir(&name).is_err() {
                                break;
                            }
                        }
                        let _ = std::fs::write("leaf.txt", b"");
                        let _ = std::env::set_current_dir(&orig);
                    }
                }
                self.log(LogEv::Touch {
                    pid,
                    path: format!("{}/<tree {} x {}>", base, levels, name_len),
                });
            }
            Op::CloseStdin => {
                if let StdinSrc::Pipe(p) = std::mem::replace(&mut self.procs[pi].stdin, StdinSrc::Closed) {
                    let pp = &mut self.pipes[p];
                    pp.readers = pp.readers.saturating_sub(1);
                    if pp.blocked_reader == Some(pid) {
                        pp.blocked_reader = None;
                    }
                }
                self.procs[pi].linebuf.clear();
            }
            Op::Touch { rel } => {
                let base = self.procs[pi]
                    .env
                    .get("TMPDIR")
                    .cloned()
                    .unwrap_or_else(|| "/nonexistent".into());
                let path = std::path::Path::new(&base).join(&rel);
                if let Some(parent) = path.parent() {
                    if parent != std::path::Path::new(&base) && std::path::Path::new(&base).is_dir() {
                        let _ = std::fs::create_dir_all(parent);
                    }
                }
                let _ = std::fs::write(&path, b"");
                self.log(LogEv::Touch {
                    pid,
                    path: path.to_string_lossy().into(),
                });
            }
        }
        true
    }

    fn bg_end(&mut self, id: u32) {
        let Some(bg) = self.bgs[id as usize].take() else {
            return;
        };
        if !bg.out.is_empty() && !bg.held.is_empty() {
            let idx = if bg.out_fd == 2 && bg.held.len() > 1 { 1 } else { 0 };
            let p = bg.held[idx];
            if self.pipes[p].readers > 0 {
                let n = self.pipes[p].free().min(bg.out.len());
                self.pipes[p].buf.extend(&bg.out[..n]);
            }
        }
        for p in bg.held {
            self.drop_writer(p);
        }
        self.log(LogEv::BgEnd { pid: bg.pid });
    }

    fn drop_writer(&mut self, pipe: usize) {
        let p = &mut self.pipes[pipe];
        p.writers = p.writers.saturating_sub(1);
        if p.writers == 0 {
            let (owner, fd) = (p.owner, p.fd);
            self.log(LogEv::PipeEof { pid: owner, fd });
        }
    }

    fn end_cmd(&mut self, pid: u32, status: Option<i32>) {
        let pi = pid as usize;
        if let Some(r) = self.procs[pi].cur.take() {
            if let Some(nonce) = r.nonce {
                self.procs[pi].last_nonce = Some(nonce.clone());
                self.log(LogEv::CmdEnd {
                    pid,
                    nonce,
                    status,
                    wrote1: r.wrote[0],
                    wrote2: r.wrote[1],
                    blocked_ns: r.blocked_ns,
                });
            }
        }
        if let Some(s) = status {
            self.procs[pi].last_status = s;
        }
    }

    fn finish(&mut self, pid: u32, status: ExitStatus, trap: bool) {
        let pi = pid as usize;
        if self.procs[pi].status.is_some() {
            return;
        }
        if self.procs[pi].cur.is_some() {
            self.end_cmd(pid, None);
        }
        // the EXIT trap of the per-process template persists the shell state
        let mut trap_ran = false;
        if trap
            && self.procs[pi].mode == Mode::Template
            && self.procs[pi].persist == Some(1)
            && self.procs[pi].commands_started > 0
        {
            if let Some(dir) = self.procs[pi].state_dir.clone() {
                let blob = format!(
                    "vsim-state:{}",
                    self.procs[pi].last_nonce.clone().unwrap_or_else(|| "none".into())
                );
                let _ = std::fs::create_dir_all(&dir);
                let _ = std::fs::write(std::path::Path::new(&dir).join("state"), blob.as_bytes());
                trap_ran = true;
                self.log(LogEv::StateWrite { pid, dir, blob });
            }
        }
        self.procs[pi].status = Some(status);
        let st = match status {
            ExitStatus::Exited(c) => format!("code:{}", c),
            ExitStatus::Signaled(s) => format!("sig:{}", s),
            ExitStatus::Other(c) => format!("other:{}", c),
            ExitStatus::Undetermined => "undetermined".into(),
        };
        self.log(LogEv::Exit {
            pid,
            status: st,
            trap_ran,
        });
        // close descriptors
        let outs = self.procs[pi].out;
        self.procs[pi].out = [None, None];
        for o in outs.iter().flatten() {
            self.drop_writer(*o);
        }
        if let StdinSrc::Pipe(p) = std::mem::replace(&mut self.procs[pi].stdin, StdinSrc::Closed) {
            let pp = &mut self.pipes[p];
            pp.readers = pp.readers.saturating_sub(1);
            if pp.blocked_reader == Some(pid) {
                pp.blocked_reader = None;
            }
        }
    }

    fn read_line(&mut self, pid: u32) -> Line {
        let pi = pid as usize;
        // take the source out to appease the borrow checker
        let mut src = std::mem::replace(&mut self.procs[pi].stdin, StdinSrc::Closed);
        let res = match &mut src {
            StdinSrc::Closed => {
                if self.procs[pi].linebuf.is_empty() {
                    Line::Eof
                } else {
                    Line::Data(std::mem::take(&mut self.procs[pi].linebuf))
                }
            }
            StdinSrc::Data(d) => {
                if d.is_empty() {
                    if self.procs[pi].linebuf.is_empty() {
                        Line::Eof
                    } else {
                        Line::Data(std::mem::take(&mut self.procs[pi].linebuf))
                    }
                } else {
                    let n = d.iter().position(|c| *c == b'\n').map(|p| p + 1).unwrap_or(d.len());
                    let l: Vec<u8> = d.drain(..n).collect();
                    Line::Data(l)
                }
            }
            StdinSrc::File { file, offset } => {
                use std::os::unix::fs::FileExt;
                let mut buf = vec![0u8; 1 << 16];
                let mut line: Vec<u8> = vec![];
                loop {
                    let n = file.read_at(&mut buf, *offset + line.len() as u64).unwrap_or(0);
                    if n == 0 {
                        break;
                    }
                    match buf[..n].iter().position(|c| *c == b'\n') {
                        Some(p) => {
                            line.extend_from_slice(&buf[..p + 1]);
                            break;
                        }
                        None => line.extend_from_slice(&buf[..n]),
                    }
                }
                *offset += line.len() as u64;
                if line.is_empty() {
                    Line::Eof
                } else {
                    Line::Data(line)
                }
            }
            StdinSrc::Pipe(p) => {
                let pipe = &mut self.pipes[*p];
                match pipe.buf.iter().position(|c| *c == b'\n') {
                    Some(pos) => {
                        let mut l = std::mem::take(&mut self.procs[pi].linebuf);
                        l.extend(pipe.buf.drain(..pos + 1));
                        Line::Data(l)
                    }
                    None => {
                        let rest: Vec<u8> = pipe.buf.drain(..).collect();
                        self.procs[pi].linebuf.extend(rest);
                        if pipe.writers == 0 {
                            if self.procs[pi].linebuf.is_empty() {
                                Line::Eof
                            } else {
                                Line::Data(std::mem::take(&mut self.procs[pi].linebuf))
                            }
                        } else {
                            pipe.blocked_reader = Some(pid);
                            Line::WouldBlock
                        }
                    }
                }
            }
        };
        self.procs[pi].stdin = src;
        res
    }

    fn start_cmd(&mut self, pid: u32, nonce: String, complete: bool) {
        let pi = pid as usize;
        if self.procs[pi].mode == Mode::Unknown {
            self.procs[pi].mode = Mode::Script;
        }
        if self.procs[pi].mode == Mode::Template {
            if !self.procs[pi].template_logged {
                self.procs[pi].template_logged = true;
                let (state_dir, persist) = (self.procs[pi].state_dir.clone(), self.procs[pi].persist);
                if persist.is_none() {
                    self.log(LogEv::Confused {
                        pid,
                        reason: "persist flag anchor `[ N -eq 1 ] && trap` not found before the command".into(),
                    });
                }
                self.log(LogEv::Template {
                    pid,
                    state_dir,
                    persist,
                });
            }
            if !self.procs[pi].state_read_done {
                self.procs[pi].state_read_done = true;
                if let Some(dir) = self.procs[pi].state_dir.clone() {
                    let blob = std::fs::read_to_string(std::path::Path::new(&dir).join("state")).ok();
                    self.log(LogEv::StateRead { pid, dir, blob });
                }
            }
        }
        self.procs[pi].commands_started += 1;
        self.log(LogEv::Cmd {
            pid,
            nonce: nonce.clone(),
            complete,
        });
        let ops = self.sc.programs.get(&nonce).cloned().unwrap_or_default();
        self.procs[pi].cur = Some(Running {
            nonce: Some(nonce),
            ops,
            pc: 0,
            pending: None,
            repeat: None,
            wrote: [0, 0],
            blocked_since: None,
            blocked_ns: 0,
        });
    }

    fn handle_line(&mut self, pid: u32, line: Vec<u8>) {
        let pi = pid as usize;
        if let Some(nonce) = self.procs[pi].in_cmd.clone() {
            let end = format!("@ve:{}@", nonce);
            if find(&line, end.as_bytes()).is_some() {
                self.procs[pi].in_cmd = None;
                self.start_cmd(pid, nonce, true);
            }
            return;
        }
        // a new command?
        if let Some(pos) = find(&line, b"@vs:") {
            let rest = &line[pos + 4..];
            if rest.len() > 12 && rest[12] == b'@' {
                if let Ok(n) = std::str::from_utf8(&rest[..12]) {
                    if self.sc.programs.contains_key(n) {
                        let nonce = n.to_string();
                        let end = format!("@ve:{}@", nonce);
                        if find(&line, end.as_bytes()).is_some() {
                            self.start_cmd(pid, nonce, true);
                        } else {
                            self.procs[pi].in_cmd = Some(nonce);
                        }
                        return;
                    }
                }
            }
        }
        let trimmed: &[u8] = {
            let mut l = &line[..];
            while let Some((last, rest)) = l.split_last() {
                if *last == b'\n' || *last == b'\r' {
                    l = rest;
                } else {
                    break;
                }
            }
            l
        };
        // anchors of the per-process template
        const STATE_ANCHOR: &[u8] = b"__SCRUT_TEMP_STATE_PATH=\"";
        if self.procs[pi].commands_started == 0 && trimmed.starts_with(STATE_ANCHOR) && trimmed.ends_with(b"\"") {
            let v = &trimmed[STATE_ANCHOR.len()..trimmed.len() - 1];
            // (within double quotes a backslash protects `$`, a backtick, `"` and itself)
            let mut plain = Vec::with_capacity(v.len());
            let mut i = 0;
            while i < v.len() {
                if v[i] == b'\\' && i + 1 < v.len() && matches!(v[i + 1], b'$' | b'`' | b'"' | b'\\') {
                    i += 1;
                }
                plain.push(v[i]);
                i += 1;
            }
            self.procs[pi].state_dir = Some(String::from_utf8_lossy(&plain).into_owned());
            self.procs[pi].mode = Mode::Template;
            return;
        }
        if self.procs[pi].mode == Mode::Template {
            if self.procs[pi].commands_started == 0
                && trimmed.starts_with(b"[ ")
                && find(trimmed, b" -eq 1 ] && trap ").is_some()
            {
                let end = find(trimmed, b" -eq 1 ]").unwrap();
                let v = String::from_utf8_lossy(&trimmed[2..end]).trim().to_string();
                self.procs[pi].persist = v.parse::<u8>().ok();
            } else if self.procs[pi].commands_started == 0 && trimmed.starts_with(b"trap ") && trimmed.ends_with(b" EXIT") && self.procs[pi].persist.is_none() {
                // the trap set without a condition: this shell persists its state
                self.procs[pi].persist = Some(1);
            }
            return;
        }
        // single-script mode: exports before the first command, divider echos between commands
        if self.procs[pi].commands_started == 0 && trimmed.starts_with(b"export ") {
            if let Some((k, v)) = parse_export(&trimmed[7..]) {
                self.procs[pi].mode = Mode::Script;
                self.procs[pi].env.insert(k.clone(), v.clone());
                self.log(LogEv::Export { pid, key: k, value: v });
            }
            return;
        }
        let (fd, body) = if let Some(b) = trimmed.strip_prefix(b"1>&2 echo \"") {
            (2u8, Some(b))
        } else if let Some(b) = trimmed.strip_prefix(b"echo \"") {
            (1u8, Some(b))
        } else {
            (1u8, None)
        };
        if let Some(body) = body {
            if let Some(body) = body.strip_suffix(b"\"") {
                let st = self.procs[pi].last_status.to_string();
                let mut text = replace(body, b"$?", st.as_bytes());
                text.push(b'\n');
                self.procs[pi].cur = Some(Running {
                    nonce: None,
                    ops: vec![Op::Out {
                        fd,
                        data: Bytes(text),
                    }],
                    pc: 0,
                    pending: None,
                    repeat: None,
                    wrote: [0, 0],
                    blocked_since: None,
                    blocked_ns: 0,
                });
            }
        }
    }
}

enum Line {
    Data(Vec<u8>),
    WouldBlock,
    Eof,
}

pub fn find(hay: &[u8], needle: &[u8]) -> Option<usize> {
    if needle.is_empty() || hay.len() < needle.len() {
        return None;
    }
    hay.windows(needle.len()).position(|w| w == needle)
}

fn replace(hay: &[u8], from: &[u8], to: &[u8]) -> Vec<u8> {
    let mut out = Vec::with_capacity(hay.len());
    let mut i = 0;
    while i < hay.len() {
        if hay[i..].starts_with(from) {
            out.extend_from_slice(to);
            i += from.len();
        } else {
            out.push(hay[i]);
            i += 1;
        }
    }
    out
}

/// `K=V` where V is bare or quoted the way `shell_escape::unix::escape` quotes
pub fn parse_export(b: &[u8]) -> Option<(String, String)> {
    let eq = b.iter().position(|c| *c == b'=')?;
    let k = String::from_utf8(b[..eq].to_vec()).ok()?;
    let v = &b[eq + 1..];
    let mut out = vec![];
    let mut i = 0;
    let mut in_q = false;
    while i < v.len() {
        let c = v[i];
        if in_q {
            if c == b'\'' {
                in_q = false;
            } else {
                out.push(c);
            }
            i += 1;
        } else if c == b'\'' {
            in_q = true;
            i += 1;
        } else if c == b'\\' && i + 1 < v.len() {
            out.push(v[i + 1]);
            i += 2;
        } else {
            out.push(c);
            i += 1;
        }
    }
    Some((k, String::from_utf8_lossy(&out).into_owned()))
}

/// sorted recursive listing, directories with a trailing slash
pub fn list_tree(root: &str) -> Vec<String> {
    fn walk(base: &std::path::Path, rel: &str, depth: u32, out: &mut Vec<String>) {
        if depth > 8 || out.len() > 5000 {
            return;
        }
        let Ok(rd) = std::fs::read_dir(base) else {
            return;
        };
        let mut names: Vec<_> = rd.flatten().map(|e| e.file_name().to_string_lossy().into_owned()).collect();
        names.sort();
        for n in names {
            let p = base.join(&n);
            let r = if rel.is_empty() { n.clone() } else { format!("{}/{}", rel, n) };
            let is_dir = std::fs::symlink_metadata(&p).map(|m| m.is_dir()).unwrap_or(false);
            if is_dir {
                out.push(format!("{}/", r));
                walk(&p, &r, depth + 1, out);
            } else {
                out.push(r);
            }
        }
    }
    let mut out = vec![];
    walk(std::path::Path::new(root), "", 0, &mut out);
    out
}
