//! Everything the simulator is told before a run, and everything it reports
//! back. All of it is plain data (serde), shared with the harness in /verif/harness.

use std::collections::BTreeMap;
use std::fmt;

use serde::de::Visitor;
use serde::Deserialize;
use serde::Deserializer;
use serde::Serialize;
use serde::Serializer;

/// Byte string that serialises as a readable JSON string: printable ASCII as is,
/// everything else (and the backslash) as `\xHH`.
#[derive(Clone, PartialEq, Eq, Default, PartialOrd, Ord, Hash)]
pub struct Bytes(pub Vec<u8>);

impl Bytes {
    pub fn escape(b: &[u8]) -> String {
        let mut s = String::with_capacity(b.len() + 8);
        for &c in b {
            if (0x20..0x7f).contains(&c) && c != b'\\' {
                s.push(c as char);
            } else {
                s.push_str(&format!("\\x{:02x}", c));
            }
        }
        s
    }
    pub fn unescape(s: &str) -> Result<Vec<u8>, String> {
        let b = s.as_bytes();
        let mut out = Vec::with_capacity(b.len());
        let mut i = 0;
        while i < b.len() {
            if b[i] == b'\\' {
                if i + 3 < b.len() + 0 && b[i + 1] == b'x' {
                    let h = std::str::from_utf8(&b[i + 2..i + 4]).map_err(|e| e.to_string())?;
                    out.push(u8::from_str_radix(h, 16).map_err(|e| e.to_string())?);
                    i += 4;
                } else {
                    return Err(format!("bad escape at {}", i));
                }
            } else {
                out.push(b[i]);
                i += 1;
            }
        }
        Ok(out)
    }
}

impl fmt::Debug for Bytes {
    fn fmt(&self, f: &mut fmt::Formatter<'_>) -> fmt::Result {
        if self.0.len() > 200 {
            write!(
                f,
                "b\"{}…\"[{}]",
                Bytes::escape(&self.0[..200]),
                self.0.len()
            )
        } else {
            write!(f, "b\"{}\"", Bytes::escape(&self.0))
        }
    }
}

impl From<&[u8]> for Bytes {
    fn from(b: &[u8]) -> Self {
        Bytes(b.to_vec())
    }
}
impl From<Vec<u8>> for Bytes {
    fn from(b: Vec<u8>) -> Self {
        Bytes(b)
    }
}
impl From<&str> for Bytes {
    fn from(b: &str) -> Self {
        Bytes(b.as_bytes().to_vec())
    }
}

impl Serialize for Bytes {
    fn serialize<S: Serializer>(&self, s: S) -> Result<S::Ok, S::Error> {
        s.serialize_str(&Bytes::escape(&self.0))
    }
}

impl<'de> Deserialize<'de> for Bytes {
    fn deserialize<D: Deserializer<'de>>(d: D) -> Result<Self, D::Error> {
        struct V;
        impl<'de> Visitor<'de> for V {
            type Value = Bytes;
            fn expecting(&self, f: &mut fmt::Formatter) -> fmt::Result {
                f.write_str("escaped byte string")
            }
            fn visit_str<E: serde::de::Error>(self, v: &str) -> Result<Bytes, E> {
                Bytes::unescape(v).map(Bytes).map_err(E::custom)
            }
        }
        d.deserialize_str(V)
    }
}

/// One step of a simulated command. See DESIGN.md §3.2.
#[derive(Clone, Debug, PartialEq, Eq, Serialize, Deserialize)]
#[serde(tag = "op", rename_all = "snake_case")]
pub enum Op {
    /// write bytes to fd 1 or 2
    Out { fd: u8, data: Bytes },
    /// write `unit` `times` times (large payloads without large scenario files)
    OutRepeat { fd: u8, unit: Bytes, times: u64 },
    /// run for that much virtual time
    Sleep { ns: u64 },
    /// the command finishes with this status (per-process mode: the shell then reads
    /// the rest of its script and exits with it; script mode: `$?` = code)
    Status { code: i32 },
    /// the user wrote `exit <code>`: the shell process ends here
    ExitShell { code: i32 },
    /// the shell is killed by a signal here
    Die { sig: u8 },
    /// never finishes, keeps its descriptors
    Hang,
    /// closes one of its output descriptors early
    CloseFd { fd: u8 },
    /// forks a grandchild that outlives the command
    Bg {
        hold: bool,
        life_ns: u64,
        #[serde(default)]
        out_fd: u8,
        #[serde(default)]
        out: Bytes,
    },
    /// creates `$TMPDIR/<rel>` on the real filesystem
    Touch { rel: String },
    /// leaves a directory tree `levels` deep under `$TMPDIR`, every level named by `name_len`
    /// characters: with 30 x 200 the absolute path is longer than PATH_MAX and only reachable
    /// step by step (tier S-cli only: the tree is made by changing the process' directory)
    DeepTree { levels: u32, name_len: u32 },
    /// the shell closes its standard input (`exec <&-`) and runs on: whatever of the script it
    /// had not read yet is never read - for the parent the script pipe now has no reader
    /// (POLLERR / EPIPE) although the process is alive
    CloseStdin,
}

#[derive(Clone, Debug, PartialEq, Eq, Serialize, Deserialize)]
#[serde(tag = "fault", rename_all = "snake_case")]
pub enum Fault {
    /// the nth `popen` (0-based, counting every attempt) fails
    Spawn { nth: u32, errno: i32 },
    /// the nth poll() made on behalf of process `proc` returns EINTR
    PollEintr { proc: u32, nth: u32 },
    /// the nth read() on an output pipe of process `proc` fails
    ReadErr { proc: u32, nth: u32, errno: i32 },
    /// wait() on process `proc` fails
    Wait { proc: u32, errno: i32 },
    /// the nth attempt (0-based) to create a directory / file at `site` fails (disk full, no permission)
    Fs { site: String, nth: u32, errno: i32 },
    /// scrut's own stdout and stderr are cut off (their reader has gone away) just before the
    /// nth spawn: every later write fails with EPIPE - or kills the process, if SIGPIPE is not
    /// ignored
    OutputClosed {
        nth: u32,
        /// 0 = stdout and stderr, 1 = stdout only (`scrut ... | head`), 2 = stderr only
        /// (`scrut ... 2>&1 >report | head`, a log collector that went away)
        #[serde(default)]
        which: u8,
    },
}

#[derive(Clone, Debug, PartialEq, Eq, Serialize, Deserialize)]
pub struct Swarm {
    pub pipe_capacity: usize,
    /// virtual cost of every system call the parent makes
    pub syscall_cost_ns: u64,
    /// probability (per 1000) that the parent is descheduled at a hook entry
    pub stall_per_mille: u32,
    pub stall_max_ns: u64,
    /// every child needs between 1 and this many ns before its first effect
    pub spawn_latency_max_ns: u64,
    /// children write in chunks of 1..=chunk_max bytes
    pub chunk_max: usize,
    pub chunk_gap_max_ns: u64,
    /// exact tie between a deadline and an event: 0 = drawn, 1 = the deadline wins, 2 = the event wins
    #[serde(default)]
    pub tie: u8,
}

impl Default for Swarm {
    fn default() -> Self {
        Swarm {
            pipe_capacity: 65536,
            syscall_cost_ns: 0,
            stall_per_mille: 0,
            stall_max_ns: 0,
            spawn_latency_max_ns: 1_000_000,
            chunk_max: 65536,
            chunk_gap_max_ns: 1_000,
            tie: 0,
        }
    }
}

/// What a modelled second scrut instance does to the shared temp root.
#[derive(Clone, Debug, PartialEq, Eq, Serialize, Deserialize)]
pub struct PeerAction {
    /// acts just before the nth popen attempt of this run
    pub at_spawn: u32,
    /// "mkdir" | "rmdir" | "touch"
    pub action: String,
    /// absolute path
    pub path: String,
}

#[derive(Clone, Debug, Default, PartialEq, Eq, Serialize, Deserialize)]
pub struct SimScenario {
    pub seed: u64,
    /// replay: choices are read from here instead of the PRNG (0 past the end)
    #[serde(default)]
    pub tape: Option<Vec<u64>>,
    /// nonce -> program
    pub programs: BTreeMap<String, Vec<Op>>,
    #[serde(default)]
    pub faults: Vec<Fault>,
    #[serde(default)]
    pub swarm: Swarm,
    #[serde(default)]
    pub peer: Vec<PeerAction>,
    /// directories whose listing is logged when scrut is done (before the orphan drain)
    #[serde(default)]
    pub snapshot_dirs: Vec<String>,
    /// hard cap on processed events (0 = default)
    #[serde(default)]
    pub max_events: u64,
}

// ---------------------------------------------------------------- event log

#[derive(Clone, Debug, PartialEq, Eq, Serialize, Deserialize)]
#[serde(tag = "ev", rename_all = "snake_case")]
pub enum LogEv {
    Spawn {
        pid: u32,
        nth: u32,
        argv0: String,
        cwd: String,
        env: BTreeMap<String, String>,
        stdin: String,
        stdout: String,
        stderr: String,
        detached: bool,
        /// did the directories the child is pointed at exist when it was started?
        #[serde(default)]
        cwd_exists: bool,
        #[serde(default)]
        tmpdir_exists: bool,
    },
    SpawnFailed {
        nth: u32,
        errno: i32,
    },
    /// what scrut handed to the shell as its script
    Script {
        pid: u32,
        data: Bytes,
    },
    /// per-process mode anchors found in the script
    Template {
        pid: u32,
        state_dir: Option<String>,
        persist: Option<u8>,
    },
    Export {
        pid: u32,
        key: String,
        value: String,
    },
    StateRead {
        pid: u32,
        dir: String,
        blob: Option<String>,
    },
    StateWrite {
        pid: u32,
        dir: String,
        blob: String,
    },
    Cmd {
        pid: u32,
        nonce: String,
        /// false when the end marker never arrived (script ended first)
        complete: bool,
    },
    CmdEnd {
        pid: u32,
        nonce: String,
        /// exit status of the command, None if the shell ended inside it
        status: Option<i32>,
        wrote1: u64,
        wrote2: u64,
        blocked_ns: u64,
    },
    Touch {
        pid: u32,
        path: String,
    },
    /// the shell process ended: "code:N" | "sig:N"
    Exit {
        pid: u32,
        status: String,
        trap_ran: bool,
    },
    /// the last writer of a pipe of `pid` went away
    PipeEof {
        pid: u32,
        fd: u8,
    },
    BgEnd {
        pid: u32,
    },
    CommBegin {
        pid: u32,
        limit_ns: Option<u64>,
    },
    CommEnd {
        pid: u32,
        result: String,
        n_out: Option<u64>,
        n_err: Option<u64>,
        polls: u32,
    },
    Wait {
        pid: u32,
        result: String,
    },
    Kill {
        pid: u32,
        sig: u8,
    },
    ParentClose {
        pid: u32,
    },
    Sleep {
        ns: u64,
    },
    /// scrut read the monotonic clock
    ClockRead,
    Stall {
        ns: u64,
    },
    Fault {
        kind: String,
        pid: Option<u32>,
    },
    Peer {
        action: String,
        path: String,
        ok: bool,
    },
    Confused {
        pid: u32,
        reason: String,
    },
    /// scrut would block forever here
    HangForever {
        site: String,
    },
    EventCap,
    /// another scrut process may have run between the previous entry and this one ("duo" runs)
    Turn {
        label: String,
    },
    DrainBegin,
    DrainEnd {
        alive: u32,
    },
    FsSnapshot {
        phase: String,
        root: String,
        entries: Vec<String>,
    },
}

#[derive(Clone, Debug, PartialEq, Eq, Serialize, Deserialize)]
pub struct LogEntry {
    pub seq: u64,
    pub t: u64,
    /// cumulative parent overhead (system-call costs + stalls) up to this entry
    #[serde(default)]
    pub ovh: u64,
    #[serde(flatten)]
    pub ev: LogEv,
}

/// What a finished run hands back to the in-process harness.
#[derive(Clone, Debug, Default)]
pub struct RunRecord {
    pub log: Vec<LogEntry>,
    pub tape: Vec<u64>,
    pub end_time_ns: u64,
    pub events: u64,
    pub stall_total_ns: u64,
}

/// Payload of the panic with which the simulator stops a run that cannot go on.
#[derive(Clone, Debug, PartialEq, Eq)]
pub enum SimAbort {
    HangForever(String),
    EventCap,
}
