//! Deterministic simulator of "the operating system as scrut sees it".
//!
//! Compiled into the scrut library only with `--features verif_sim` (see the hook in
//! /repo/src/lib.rs). It replaces exactly three things: the `subprocess` crate
//! (`Exec`, `Popen`, `Communicator`), `std::time::Instant` and `std::thread::sleep`
//! as used by `subprocess_runner.rs` and `stateful_executor.rs`.
//!
//! With no scenario installed every type passes through to the real thing, so a hooked
//! binary without `SCRUT_VERIF_SCENARIO` behaves like the shipped one.

#![allow(dead_code)]
#![allow(clippy::all)]

pub mod scenario;
pub mod world;

use std::cell::Cell;
use std::cell::RefCell;
use std::collections::BTreeMap;
use std::collections::VecDeque;
use std::ffi::OsStr;
use std::ffi::OsString;
use std::fs::File;
use std::io;
use std::io::ErrorKind;
use std::io::Read;
use std::ops::Add;
use std::path::Path;
use std::path::PathBuf;
use std::time::Duration;

pub use scenario::*;
pub use subprocess::ExitStatus;
pub use subprocess::NullFile;
pub use subprocess::PopenError;
pub use subprocess::Redirection;
use world::*;

thread_local! {
    static WORLD: RefCell<Option<World>> = const { RefCell::new(None) };
    static ENV_CHECKED: Cell<bool> = const { Cell::new(false) };
}

fn ensure_init() {
    if ENV_CHECKED.with(|c| c.replace(true)) {
        return;
    }
    if WORLD.with(|w| w.borrow().is_some()) {
        return;
    }
    let Ok(path) = std::env::var("SCRUT_VERIF_SCENARIO") else {
        return;
    };
    let text = match std::fs::read_to_string(&path) {
        Ok(t) => t,
        Err(e) => {
            eprintln!("verif_sim: cannot read scenario {}: {}", path, e);
            std::process::exit(98);
        }
    };
    let sc: SimScenario = match serde_json::from_str(&text) {
        Ok(s) => s,
        Err(e) => {
            eprintln!("verif_sim: cannot parse scenario {}: {}", path, e);
            std::process::exit(98);
        }
    };
    let sink = match std::env::var("SCRUT_VERIF_LOG") {
        Ok(p) => match File::create(&p) {
            Ok(f) => LogSink::File(io::BufWriter::new(f)),
            Err(e) => {
                eprintln!("verif_sim: cannot create log {}: {}", p, e);
                std::process::exit(98);
            }
        },
        Err(_) => LogSink::Memory,
    };
    WORLD.with(|w| *w.borrow_mut() = Some(World::new(sc, sink, AbortMode::Exit)));
}

fn active() -> bool {
    ensure_init();
    WORLD.with(|w| w.borrow().is_some())
}

fn with_world<R>(f: impl FnOnce(&mut World) -> R) -> Option<R> {
    WORLD.with(|w| {
        let mut b = w.borrow_mut();
        b.as_mut().map(f)
    })
}

/// In-process harness: install a scenario for the current thread.
pub fn install(sc: SimScenario) {
    ENV_CHECKED.with(|c| c.set(true));
    WORLD.with(|w| *w.borrow_mut() = Some(World::new(sc, LogSink::Memory, AbortMode::Panic)));
}

/// In-process harness: let orphans run on after scrut's code has returned.
pub fn drain() {
    with_world(|w| w.drain());
}

/// In-process harness: end the run and take the recorded history.
pub fn uninstall() -> Option<RunRecord> {
    WORLD.with(|w| {
        w.borrow_mut().take().map(|w| RunRecord {
            log: w.log,
            tape: w.tape_out,
            end_time_ns: w.now,
            events: w.events,
            stall_total_ns: w.stall_total_ns,
        })
    })
}

thread_local! {
    static TURN: RefCell<Option<Option<std::os::unix::net::UnixStream>>> = const { RefCell::new(None) };
}

/// Turn-taking between several hooked scrut processes that run at the same time (tier S-cli,
/// "duo" runs): with `SCRUT_VERIF_TURN=<unix socket>` the process announces every point at
/// which it is about to touch what the processes share (the file system) and then waits until
/// the harness lets it go on. The harness lets exactly one process run at a time, so WHICH
/// process proceeds is its (seeded, recorded) decision and the interleaving replays exactly.
/// Without the variable this is a no-op.
pub fn turn_point(label: &str) {
    use std::io::Write;
    let parked = TURN.with(|t| {
        let mut t = t.borrow_mut();
        if t.is_none() {
            *t = Some(
                std::env::var("SCRUT_VERIF_TURN")
                    .ok()
                    .and_then(|p| std::os::unix::net::UnixStream::connect(p).ok()),
            );
        }
        match t.as_mut().unwrap() {
            None => false,
            Some(s) => {
                let mut go = [0u8; 1];
                s.write_all(format!("{}\n", label).as_bytes()).is_ok() && s.read_exact(&mut go).is_ok()
            }
        }
    });
    if parked {
        with_world(|w| w.log(LogEv::Turn { label: label.to_string() }));
    }
}

/// Hook at the places where scrut creates its directories / temporary files: lets the
/// simulator fail the operation (ENOSPC, EACCES). Pass-through: always Ok.
pub fn fs_fault(site: &str) -> io::Result<()> {
    if !active() {
        return Ok(());
    }
    turn_point(site);
    match with_world(|w| w.fs_fault(site)).flatten() {
        Some(errno) => Err(io::Error::from_raw_os_error(errno)),
        None => Ok(()),
    }
}

/// virtual now in ns (None in pass-through mode)
pub fn virtual_now() -> Option<u64> {
    with_world(|w| w.now)
}

/// Guard created first thing in `main()`; when it is dropped scrut has finished all of its
/// own clean-up, and the simulated orphans get to run on.
pub struct DrainOnDrop(());

impl DrainOnDrop {
    pub fn new() -> Self {
        ensure_init();
        if active() {
            turn_point("start");
        }
        DrainOnDrop(())
    }
}

impl Drop for DrainOnDrop {
    fn drop(&mut self) {
        if active() {
            turn_point("end-of-main");
        }
        with_world(|w| {
            w.drain();
            w.flush_tape();
        });
    }
}

// ------------------------------------------------------------------ clock

#[derive(Clone, Copy, Debug, PartialEq, Eq, PartialOrd, Ord)]
pub enum Instant {
    Real(std::time::Instant),
    Sim(Duration),
}

impl Instant {
    pub fn now() -> Instant {
        if active() {
            Instant::Sim(Duration::from_nanos(
                with_world(|w| {
                    w.log(LogEv::ClockRead);
                    w.now
                })
                .unwrap_or(0),
            ))
        } else {
            Instant::Real(std::time::Instant::now())
        }
    }
    /// like std: saturating
    pub fn duration_since(&self, earlier: Instant) -> Duration {
        match (self, earlier) {
            (Instant::Real(a), Instant::Real(b)) => a.duration_since(b),
            (Instant::Sim(a), Instant::Sim(b)) => a.saturating_sub(b),
            _ => Duration::ZERO,
        }
    }
    pub fn saturating_duration_since(&self, earlier: Instant) -> Duration {
        self.duration_since(earlier)
    }
    pub fn checked_duration_since(&self, earlier: Instant) -> Option<Duration> {
        match (self, earlier) {
            (Instant::Real(a), Instant::Real(b)) => a.checked_duration_since(b),
            (Instant::Sim(a), Instant::Sim(b)) => a.checked_sub(b),
            _ => None,
        }
    }
    pub fn elapsed(&self) -> Duration {
        Instant::now().duration_since(*self)
    }
    pub fn checked_add(&self, d: Duration) -> Option<Instant> {
        match self {
            Instant::Real(a) => a.checked_add(d).map(Instant::Real),
            Instant::Sim(a) => a.checked_add(d).map(Instant::Sim),
        }
    }
}

impl Add<Duration> for Instant {
    type Output = Instant;
    fn add(self, d: Duration) -> Instant {
        match self {
            Instant::Real(a) => Instant::Real(a + d),
            Instant::Sim(a) => Instant::Sim(a.saturating_add(d)),
        }
    }
}

impl std::ops::Sub<Duration> for Instant {
    type Output = Instant;
    fn sub(self, d: Duration) -> Instant {
        match self {
            Instant::Real(a) => Instant::Real(a - d),
            Instant::Sim(a) => Instant::Sim(a.saturating_sub(d)),
        }
    }
}

impl std::ops::Sub<Instant> for Instant {
    type Output = Duration;
    fn sub(self, o: Instant) -> Duration {
        self.duration_since(o)
    }
}

pub fn sleep(d: Duration) {
    if !active() {
        std::thread::sleep(d);
        return;
    }
    with_world(|w| {
        w.hook_entry();
        let ns = d.as_nanos().min(u64::MAX as u128 / 4) as u64;
        w.log(LogEv::Sleep { ns });
        let until = w.now + ns;
        w.advance_until(Some(until), &WaitFor::Nothing, "sleep");
    });
}

// ------------------------------------------------------------------ Exec

pub enum SimIn {
    Redir(Redirection),
    Null,
    Data(Vec<u8>),
}
impl From<Redirection> for SimIn {
    fn from(r: Redirection) -> Self {
        if let Redirection::Merge = r {
            panic!("Redirection::Merge is only allowed for output streams");
        }
        SimIn::Redir(r)
    }
}
impl From<File> for SimIn {
    fn from(f: File) -> Self {
        SimIn::Redir(Redirection::File(f))
    }
}
impl From<NullFile> for SimIn {
    fn from(_: NullFile) -> Self {
        SimIn::Null
    }
}
impl From<Vec<u8>> for SimIn {
    fn from(v: Vec<u8>) -> Self {
        SimIn::Data(v)
    }
}
impl<'a> From<&'a str> for SimIn {
    fn from(v: &'a str) -> Self {
        SimIn::Data(v.as_bytes().to_vec())
    }
}

pub enum SimOut {
    Redir(Redirection),
    Null,
}
impl From<Redirection> for SimOut {
    fn from(r: Redirection) -> Self {
        SimOut::Redir(r)
    }
}
impl From<File> for SimOut {
    fn from(f: File) -> Self {
        SimOut::Redir(Redirection::File(f))
    }
}
impl From<NullFile> for SimOut {
    fn from(_: NullFile) -> Self {
        SimOut::Null
    }
}

pub struct SimExec {
    command: OsString,
    args: Vec<OsString>,
    env: BTreeMap<String, String>,
    env_cleared: bool,
    cwd: Option<PathBuf>,
    stdin: Option<SimIn>,
    stdout: Option<SimOut>,
    stderr: Option<SimOut>,
    detached: bool,
}

#[must_use]
pub enum Exec {
    Real(subprocess::Exec),
    Sim(SimExec),
}

impl Exec {
    pub fn cmd(command: impl AsRef<OsStr>) -> Exec {
        if active() {
            Exec::Sim(SimExec {
                command: command.as_ref().to_owned(),
                args: vec![],
                env: BTreeMap::new(),
                env_cleared: false,
                cwd: None,
                stdin: None,
                stdout: None,
                stderr: None,
                detached: false,
            })
        } else {
            Exec::Real(subprocess::Exec::cmd(command))
        }
    }

    pub fn shell(cmdstr: impl AsRef<OsStr>) -> Exec {
        Exec::cmd("sh").arg("-c").arg(cmdstr)
    }

    pub fn arg(self, arg: impl AsRef<OsStr>) -> Exec {
        match self {
            Exec::Real(e) => Exec::Real(e.arg(arg)),
            Exec::Sim(mut e) => {
                e.args.push(arg.as_ref().to_owned());
                Exec::Sim(e)
            }
        }
    }

    pub fn args(self, args: &[impl AsRef<OsStr>]) -> Exec {
        match self {
            Exec::Real(e) => Exec::Real(e.args(args)),
            Exec::Sim(mut e) => {
                e.args.extend(args.iter().map(|a| a.as_ref().to_owned()));
                Exec::Sim(e)
            }
        }
    }

    pub fn detached(self) -> Exec {
        match self {
            Exec::Real(e) => Exec::Real(e.detached()),
            Exec::Sim(mut e) => {
                e.detached = true;
                Exec::Sim(e)
            }
        }
    }

    pub fn env_clear(self) -> Exec {
        match self {
            Exec::Real(e) => Exec::Real(e.env_clear()),
            Exec::Sim(mut e) => {
                e.env.clear();
                e.env_cleared = true;
                Exec::Sim(e)
            }
        }
    }

    pub fn env(self, key: impl AsRef<OsStr>, value: impl AsRef<OsStr>) -> Exec {
        match self {
            Exec::Real(e) => Exec::Real(e.env(key, value)),
            Exec::Sim(mut e) => {
                e.env.insert(
                    key.as_ref().to_string_lossy().into_owned(),
                    value.as_ref().to_string_lossy().into_owned(),
                );
                Exec::Sim(e)
            }
        }
    }

    pub fn env_extend(self, vars: &[(impl AsRef<OsStr>, impl AsRef<OsStr>)]) -> Exec {
        match self {
            Exec::Real(e) => Exec::Real(e.env_extend(vars)),
            Exec::Sim(mut e) => {
                for (k, v) in vars {
                    e.env.insert(
                        k.as_ref().to_string_lossy().into_owned(),
                        v.as_ref().to_string_lossy().into_owned(),
                    );
                }
                Exec::Sim(e)
            }
        }
    }

    pub fn env_remove(self, key: impl AsRef<OsStr>) -> Exec {
        match self {
            Exec::Real(e) => Exec::Real(e.env_remove(key)),
            Exec::Sim(mut e) => {
                e.env.remove(&*key.as_ref().to_string_lossy());
                Exec::Sim(e)
            }
        }
    }

    pub fn cwd(self, dir: impl AsRef<Path>) -> Exec {
        match self {
            Exec::Real(e) => Exec::Real(e.cwd(dir)),
            Exec::Sim(mut e) => {
                e.cwd = Some(dir.as_ref().to_owned());
                Exec::Sim(e)
            }
        }
    }

    pub fn stdin(self, stdin: impl Into<SimIn>) -> Exec {
        match self {
            Exec::Real(e) => Exec::Real(match stdin.into() {
                SimIn::Redir(r) => e.stdin(r),
                SimIn::Null => e.stdin(NullFile),
                SimIn::Data(d) => e.stdin(d),
            }),
            Exec::Sim(mut e) => {
                if e.stdin.is_some() {
                    panic!("stdin is already set");
                }
                e.stdin = Some(stdin.into());
                Exec::Sim(e)
            }
        }
    }

    pub fn stdout(self, stdout: impl Into<SimOut>) -> Exec {
        match self {
            Exec::Real(e) => Exec::Real(match stdout.into() {
                SimOut::Redir(r) => e.stdout(r),
                SimOut::Null => e.stdout(NullFile),
            }),
            Exec::Sim(mut e) => {
                if e.stdout.is_some() {
                    panic!("stdout is already set");
                }
                e.stdout = Some(stdout.into());
                Exec::Sim(e)
            }
        }
    }

    pub fn stderr(self, stderr: impl Into<SimOut>) -> Exec {
        match self {
            Exec::Real(e) => Exec::Real(match stderr.into() {
                SimOut::Redir(r) => e.stderr(r),
                SimOut::Null => e.stderr(NullFile),
            }),
            Exec::Sim(mut e) => {
                if e.stderr.is_some() {
                    panic!("stderr is already set");
                }
                e.stderr = Some(stderr.into());
                Exec::Sim(e)
            }
        }
    }

    pub fn popen(self) -> Result<Popen, PopenError> {
        match self {
            Exec::Real(e) => e.popen().map(Popen::Real),
            Exec::Sim(e) => sim_popen(e).map(Popen::Sim),
        }
    }

    /// start, wait, return the exit status
    pub fn join(self) -> Result<ExitStatus, PopenError> {
        self.popen()?.wait()
    }
}

fn out_kind(o: &Option<SimOut>) -> &'static str {
    match o {
        None => "inherit",
        Some(SimOut::Null) => "null",
        Some(SimOut::Redir(Redirection::Pipe)) => "pipe",
        Some(SimOut::Redir(Redirection::Merge)) => "merge",
        Some(SimOut::Redir(Redirection::None)) => "inherit",
        Some(SimOut::Redir(_)) => "file",
    }
}

fn sim_popen(e: SimExec) -> Result<SimPopen, PopenError> {
    let argv0 = e.command.to_string_lossy().into_owned();
    // (what the kernel asks of something that is to be executed: a regular file with an execute
    // bit - a directory of that name, or a file without one, gives EACCES)
    let (exists, exec_errno) = match std::fs::metadata(&e.command) {
        Ok(m) => {
            use std::os::unix::fs::PermissionsExt;
            (m.is_file() && m.permissions().mode() & 0o111 != 0, 13)
        }
        Err(_) => (false, 2),
    };
    let cwd_ok = e.cwd.as_ref().map(|c| c.is_dir()).unwrap_or(true);
    // read a file given as stdin (detached test cases) before entering the world
    let mut file_data: Option<Vec<u8>> = None;
    let mut file_handle: Option<File> = None;
    let mut file_pos: u64 = 0;
    let stdin_kind = match &e.stdin {
        None | Some(SimIn::Redir(Redirection::None)) => "inherit",
        Some(SimIn::Null) => "null",
        Some(SimIn::Redir(Redirection::Pipe)) => "pipe",
        Some(SimIn::Data(_)) => "pipe",
        Some(SimIn::Redir(Redirection::File(f))) => {
            let mut v = vec![];
            let mut fr: &File = f;
            // (a shell reads a script that is a regular file piece by piece, as it goes along:
            // the child gets the file itself, at the position it was handed over in)
            file_pos = std::io::Seek::stream_position(&mut fr).unwrap_or(0);
            file_handle = f.try_clone().ok();
            let _ = fr.read_to_end(&mut v);
            file_data = Some(v);
            "file"
        }
        Some(SimIn::Redir(Redirection::RcFile(f))) => {
            let mut v = vec![];
            let mut fr: &File = f;
            file_pos = std::io::Seek::stream_position(&mut fr).unwrap_or(0);
            file_handle = f.try_clone().ok();
            let _ = fr.read_to_end(&mut v);
            file_data = Some(v);
            "file"
        }
        Some(SimIn::Redir(Redirection::Merge)) => "merge",
    };
    if out_kind(&e.stdout) == "merge" && out_kind(&e.stderr) == "merge" {
        return Err(PopenError::LogicError("cannot merge stdout and stderr into each other"));
    }
    turn_point("spawn");
    let res = with_world(|w| {
        w.hook_entry();
        let nth = w.popen_attempts;
        w.popen_attempts += 1;
        w.apply_peer_actions(nth);
        w.output_closed_fault(nth);
        if let Some(errno) = w.spawn_fault(nth) {
            w.log(LogEv::Fault {
                kind: format!("spawn_error:{}", errno),
                pid: None,
            });
            w.log(LogEv::SpawnFailed { nth, errno });
            return Err(io::Error::from_raw_os_error(errno));
        }
        if !exists || !cwd_ok {
            let errno = if !exists { exec_errno } else { 2 };
            w.log(LogEv::SpawnFailed { nth, errno });
            return Err(io::Error::from_raw_os_error(errno));
        }
        let pid = w.procs.len() as u32;
        let stdin_src = match stdin_kind {
            "pipe" => StdinSrc::Pipe(w.new_pipe(pid, 0)),
            "file" => match file_handle.take() {
                Some(file) => StdinSrc::File { file, offset: file_pos },
                None => StdinSrc::Data(VecDeque::from(file_data.clone().unwrap_or_default())),
            },
            _ => StdinSrc::Closed,
        };
        let parent_stdin = if let StdinSrc::Pipe(p) = &stdin_src {
            Some(*p)
        } else {
            None
        };
        let (ok, ek) = (out_kind(&e.stdout), out_kind(&e.stderr));
        let mut out = [None, None];
        if ok == "pipe" {
            out[0] = Some(w.new_pipe(pid, 1));
        }
        if ek == "pipe" {
            out[1] = Some(w.new_pipe(pid, 2));
        }
        if ek == "merge" {
            out[1] = out[0];
        }
        if ok == "merge" {
            out[0] = out[1];
        }
        let parent_stdout = if ok == "pipe" { out[0] } else { None };
        let parent_stderr = if ek == "pipe" { out[1] } else { None };
        let mut env: BTreeMap<String, String> = if e.env_cleared {
            BTreeMap::new()
        } else {
            std::env::vars_os()
                .map(|(k, v)| (k.to_string_lossy().into_owned(), v.to_string_lossy().into_owned()))
                .collect()
        };
        for (k, v) in &e.env {
            env.insert(k.clone(), v.clone());
        }
        // only what scrut set explicitly is logged (the inherited part is ambient)
        let logged_env = e.env.clone();
        let got = w.spawn(env, stdin_src, out);
        debug_assert_eq!(got, pid);
        w.log(LogEv::Spawn {
            pid,
            nth,
            argv0: argv0.clone(),
            cwd: e
                .cwd
                .as_ref()
                .map(|c| c.to_string_lossy().into_owned())
                .unwrap_or_default(),
            env: logged_env,
            stdin: stdin_kind.into(),
            stdout: ok.into(),
            stderr: ek.into(),
            detached: e.detached,
            cwd_exists: cwd_ok && e.cwd.is_some(),
            tmpdir_exists: e.env.get("TMPDIR").map(|t| Path::new(t).is_dir()).unwrap_or(false),
        });
        if let Some(d) = &file_data {
            // a detached test case gets its script through a file
            w.log(LogEv::Script {
                pid,
                data: Bytes(d.clone()),
            });
        }
        if let Some(SimIn::Data(_)) = &e.stdin {
            // `Exec::stdin(data)` + popen() is a logic error in the real crate as well
        }
        Ok(SimPopen {
            pid,
            detached: e.detached,
            stdin: parent_stdin,
            stdout: parent_stdout,
            stderr: parent_stderr,
            reaped: None,
        })
    });
    match res {
        Some(Ok(p)) => Ok(p),
        Some(Err(e)) => Err(PopenError::from(e)),
        None => Err(PopenError::LogicError("verif_sim: world vanished")),
    }
}

// ------------------------------------------------------------------ Popen

pub struct SimPopen {
    pid: u32,
    detached: bool,
    stdin: Option<usize>,
    stdout: Option<usize>,
    stderr: Option<usize>,
    reaped: Option<ExitStatus>,
}

pub enum Popen {
    Real(subprocess::Popen),
    Sim(SimPopen),
}

impl Popen {
    pub fn pid(&self) -> Option<u32> {
        match self {
            Popen::Real(p) => p.pid(),
            Popen::Sim(p) => {
                if p.reaped.is_some() {
                    None
                } else {
                    Some(100_000 + p.pid)
                }
            }
        }
    }

    pub fn detach(&mut self) {
        match self {
            Popen::Real(p) => p.detach(),
            Popen::Sim(p) => p.detached = true,
        }
    }

    pub fn exit_status(&self) -> Option<ExitStatus> {
        match self {
            Popen::Real(p) => p.exit_status(),
            Popen::Sim(p) => p.reaped,
        }
    }

    pub fn communicate_start(&mut self, input_data: Option<Vec<u8>>) -> Communicator {
        match self {
            Popen::Real(p) => Communicator::Real(p.communicate_start(input_data)),
            Popen::Sim(p) => {
                if p.stdin.is_some() {
                    input_data.as_ref().expect("must provide input to redirected stdin");
                } else {
                    assert!(input_data.is_none(), "cannot provide input to non-redirected stdin");
                }
                let pid = p.pid;
                let input = input_data.unwrap_or_default();
                with_world(|w| {
                    w.log(LogEv::Script {
                        pid,
                        data: Bytes(input.clone()),
                    })
                });
                Communicator::Sim(SimCommunicator {
                    pid,
                    stdin: p.stdin.take(),
                    stdout: p.stdout.take(),
                    stderr: p.stderr.take(),
                    out_live: true,
                    err_live: true,
                    input: VecDeque::from(input),
                    time_limit: None,
                    size_limit: None,
                    polls: 0,
                    reads: 0,
                })
            }
        }
    }

    pub fn communicate_bytes(
        &mut self,
        input_data: Option<&[u8]>,
    ) -> io::Result<(Option<Vec<u8>>, Option<Vec<u8>>)> {
        self.communicate_start(input_data.map(|i| i.to_vec()))
            .read()
            .map_err(|e| e.error)
    }

    /// non-blocking status check
    pub fn poll(&mut self) -> Option<ExitStatus> {
        match self {
            Popen::Real(p) => p.poll(),
            Popen::Sim(p) => {
                if p.reaped.is_none() {
                    let pid = p.pid;
                    p.reaped = with_world(|w| {
                        w.hook_entry();
                        w.procs[pid as usize].status
                    })
                    .flatten();
                }
                p.reaped
            }
        }
    }

    pub fn wait(&mut self) -> Result<ExitStatus, PopenError> {
        match self {
            Popen::Real(p) => p.wait(),
            Popen::Sim(p) => {
                if let Some(s) = p.reaped {
                    return Ok(s);
                }
                let pid = p.pid;
                let r = with_world(|w| {
                    w.hook_entry();
                    if let Some(errno) = w.wait_fault(pid) {
                        w.log(LogEv::Fault {
                            kind: format!("wait_error:{}", errno),
                            pid: Some(pid),
                        });
                        w.log(LogEv::Wait {
                            pid,
                            result: format!("err:{}", errno),
                        });
                        w.reaped_elsewhere(pid);
                        return Err(io::Error::from_raw_os_error(errno));
                    }
                    w.advance_until(None, &WaitFor::ProcExit(pid), "wait");
                    let st = w.procs[pid as usize].status.unwrap();
                    w.log(LogEv::Wait {
                        pid,
                        result: format!("{:?}", st),
                    });
                    Ok(st)
                });
                match r {
                    Some(Ok(s)) => {
                        p.reaped = Some(s);
                        Ok(s)
                    }
                    Some(Err(e)) => Err(PopenError::from(e)),
                    None => Ok(ExitStatus::Undetermined),
                }
            }
        }
    }

    pub fn wait_timeout(&mut self, dur: Duration) -> Result<Option<ExitStatus>, PopenError> {
        match self {
            Popen::Real(p) => p.wait_timeout(dur),
            Popen::Sim(p) => {
                if let Some(s) = p.reaped {
                    return Ok(Some(s));
                }
                let pid = p.pid;
                let r = with_world(|w| {
                    w.hook_entry();
                    if let Some(errno) = w.wait_fault(pid) {
                        w.log(LogEv::Fault {
                            kind: format!("wait_error:{}", errno),
                            pid: Some(pid),
                        });
                        w.log(LogEv::Wait {
                            pid,
                            result: format!("err:{}", errno),
                        });
                        w.reaped_elsewhere(pid);
                        return Err(io::Error::from_raw_os_error(errno));
                    }
                    let until = w.now + dur.as_nanos().min(u64::MAX as u128 / 4) as u64;
                    w.advance_until(Some(until), &WaitFor::ProcExit(pid), "wait_timeout");
                    let st = w.procs[pid as usize].status;
                    w.log(LogEv::Wait {
                        pid,
                        result: format!("{:?}", st),
                    });
                    Ok(st)
                });
                match r {
                    Some(Ok(s)) => {
                        p.reaped = s;
                        Ok(s)
                    }
                    Some(Err(e)) => Err(PopenError::from(e)),
                    None => Ok(None),
                }
            }
        }
    }

    pub fn terminate(&mut self) -> io::Result<()> {
        match self {
            Popen::Real(p) => p.terminate(),
            Popen::Sim(p) => {
                if p.reaped.is_none() {
                    let pid = p.pid;
                    with_world(|w| {
                        w.hook_entry();
                        w.kill(pid, 15)
                    });
                }
                Ok(())
            }
        }
    }

    pub fn kill(&mut self) -> io::Result<()> {
        match self {
            Popen::Real(p) => p.kill(),
            Popen::Sim(p) => {
                if p.reaped.is_none() {
                    let pid = p.pid;
                    with_world(|w| {
                        w.hook_entry();
                        w.kill(pid, 9)
                    });
                }
                Ok(())
            }
        }
    }
}

impl Drop for SimPopen {
    fn drop(&mut self) {
        let (pid, detached, reaped) = (self.pid, self.detached, self.reaped.is_some());
        let ends = (self.stdin.take(), self.stdout.take(), self.stderr.take());
        let panicking = std::thread::panicking();
        with_world(|w| {
            if let Some(p) = ends.0 {
                w.parent_close_write(p);
            }
            if let Some(p) = ends.1 {
                w.parent_close_read(p);
            }
            if let Some(p) = ends.2 {
                w.parent_close_read(p);
            }
            // the real Popen waits for a child it was not told to detach from
            if !detached && !reaped && !panicking && !w.drained {
                w.advance_until(None, &WaitFor::ProcExit(pid), "drop(Popen)");
            }
        });
    }
}

// ------------------------------------------------------------------ Communicator

/// Error during communication (same shape as `subprocess::CommunicateError`).
#[derive(Debug)]
pub struct CommunicateError {
    pub error: io::Error,
    pub capture: (Option<Vec<u8>>, Option<Vec<u8>>),
}

impl CommunicateError {
    pub fn kind(&self) -> ErrorKind {
        self.error.kind()
    }
}

impl std::error::Error for CommunicateError {
    fn source(&self) -> Option<&(dyn std::error::Error + 'static)> {
        self.error.source()
    }
}

impl std::fmt::Display for CommunicateError {
    fn fmt(&self, f: &mut std::fmt::Formatter<'_>) -> std::fmt::Result {
        self.error.fmt(f)
    }
}

pub struct SimCommunicator {
    pid: u32,
    stdin: Option<usize>,
    stdout: Option<usize>,
    stderr: Option<usize>,
    out_live: bool,
    err_live: bool,
    input: VecDeque<u8>,
    time_limit: Option<Duration>,
    size_limit: Option<usize>,
    polls: u32,
    reads: u32,
}

#[must_use]
pub enum Communicator {
    Real(subprocess::Communicator),
    Sim(SimCommunicator),
}

impl Communicator {
    pub fn limit_time(self, time: Duration) -> Communicator {
        match self {
            Communicator::Real(c) => Communicator::Real(c.limit_time(time)),
            Communicator::Sim(mut c) => {
                c.time_limit = Some(time);
                Communicator::Sim(c)
            }
        }
    }

    pub fn limit_size(self, size: usize) -> Communicator {
        match self {
            Communicator::Real(c) => Communicator::Real(c.limit_size(size)),
            Communicator::Sim(mut c) => {
                c.size_limit = Some(size);
                Communicator::Sim(c)
            }
        }
    }

    pub fn read(&mut self) -> Result<(Option<Vec<u8>>, Option<Vec<u8>>), CommunicateError> {
        match self {
            Communicator::Real(c) => c.read().map_err(|e| CommunicateError {
                error: e.error,
                capture: e.capture,
            }),
            Communicator::Sim(c) => c.read(),
        }
    }

    pub fn read_string(&mut self) -> Result<(Option<String>, Option<String>), CommunicateError> {
        let (o, e) = self.read()?;
        Ok((
            o.map(|v| String::from_utf8_lossy(&v).into_owned()),
            e.map(|v| String::from_utf8_lossy(&v).into_owned()),
        ))
    }
}

impl SimCommunicator {
    /// `Communicator::read` of subprocess 0.2.15
    fn read(&mut self) -> Result<(Option<Vec<u8>>, Option<Vec<u8>>), CommunicateError> {
        let pid = self.pid;
        let limit_ns = self.time_limit.map(|d| d.as_nanos().min(u64::MAX as u128 / 4) as u64);
        let deadline = with_world(|w| {
            w.hook_entry();
            w.log(LogEv::CommBegin { pid, limit_ns });
            limit_ns.map(|l| w.now + l)
        })
        .flatten();
        let mut outvec: Option<Vec<u8>> = None;
        let mut errvec: Option<Vec<u8>> = None;
        let res = self.raw_read(deadline, &mut outvec, &mut errvec);
        let result = match &res {
            Ok(()) => "ok".to_string(),
            Err(e) if e.kind() == ErrorKind::TimedOut => "timed_out".to_string(),
            Err(e) => format!("err:{:?}", e.kind()),
        };
        let polls = self.polls;
        with_world(|w| {
            w.log(LogEv::CommEnd {
                pid,
                result,
                n_out: outvec.as_ref().map(|v| v.len() as u64),
                n_err: errvec.as_ref().map(|v| v.len() as u64),
                polls,
            })
        });
        match res {
            Ok(()) => Ok((outvec, errvec)),
            Err(error) => Err(CommunicateError {
                error,
                capture: (outvec, errvec),
            }),
        }
    }

    /// `maybe_poll` of subprocess 0.2.15 (posix)
    fn maybe_poll(&mut self, deadline: Option<u64>) -> io::Result<(bool, bool, bool)> {
        let fin = self.stdin;
        let fout = if self.out_live { self.stdout } else { None };
        let ferr = if self.err_live { self.stderr } else { None };
        if deadline.is_none() {
            match (&fin, &fout, &ferr) {
                (None, None, Some(..)) => return Ok((false, false, true)),
                (None, Some(..), None) => return Ok((false, true, false)),
                (Some(..), None, None) => return Ok((true, false, false)),
                _ => (),
            }
        }
        let pid = self.pid;
        let nth = self.polls;
        self.polls += 1;
        let r = with_world(|w| {
            if w.poll_eintr(pid, nth) {
                w.hook_entry();
                w.log(LogEv::Fault {
                    kind: "poll_eintr".into(),
                    pid: Some(pid),
                });
                return Err(io::Error::from_raw_os_error(EINTR));
            }
            // posix::poll(): the timeout is handed to poll(2) in whole milliseconds
            let timeout = deadline.map(|d| d.saturating_sub(w.now));
            let timeout_ns = timeout.map(|t| (t / 1_000_000) * 1_000_000);
            let fds = [(fin, false), (fout, true), (ferr, true)];
            let rev = w.sys_poll(&fds, timeout_ns);
            Ok((
                rev[0] & (POLLOUT | POLLHUP) != 0,
                rev[1] & (POLLIN | POLLHUP) != 0,
                rev[2] & (POLLIN | POLLHUP) != 0,
            ))
        });
        r.unwrap_or_else(|| Err(io::Error::new(ErrorKind::Other, "verif_sim: world vanished")))
    }

    fn do_read(&mut self, which: u8, dest: &mut Vec<u8>) -> io::Result<()> {
        let pipe = if which == 1 { self.stdout } else { self.stderr }.unwrap();
        let pid = self.pid;
        let nth = self.reads;
        self.reads += 1;
        let r = with_world(|w| {
            if let Some(errno) = w.read_fault(pid, nth) {
                w.hook_entry();
                w.log(LogEv::Fault {
                    kind: format!("read_error:{}", errno),
                    pid: Some(pid),
                });
                return Err(io::Error::from_raw_os_error(errno));
            }
            w.sys_read(pipe, 4096)
        })
        .unwrap_or_else(|| Err(io::Error::new(ErrorKind::Other, "verif_sim: world vanished")))?;
        if !r.is_empty() {
            dest.extend_from_slice(&r);
        } else if which == 1 {
            self.out_live = false;
        } else {
            self.err_live = false;
        }
        Ok(())
    }

    /// `RawCommunicator::read` of subprocess 0.2.15 (posix), line by line
    fn raw_read(
        &mut self,
        deadline: Option<u64>,
        outret: &mut Option<Vec<u8>>,
        errret: &mut Option<Vec<u8>>,
    ) -> io::Result<()> {
        const WRITE_SIZE: usize = 4096;
        let mut scratch_out = vec![];
        let mut scratch_err = vec![];
        let outvec: &mut Vec<u8> = if self.stdout.is_some() {
            outret.insert(vec![])
        } else {
            &mut scratch_out
        };
        let errvec: &mut Vec<u8> = if self.stderr.is_some() {
            errret.insert(vec![])
        } else {
            &mut scratch_err
        };
        if self.stdout.is_none() {
            self.out_live = false;
        }
        if self.stderr.is_none() {
            self.err_live = false;
        }
        loop {
            let total = outvec.len() + errvec.len();
            if let Some(size_limit) = self.size_limit {
                if total >= size_limit {
                    break;
                }
            }
            if self.stdin.is_none() && !self.out_live && !self.err_live {
                break;
            }
            let (in_ready, out_ready, err_ready) = self.maybe_poll(deadline)?;
            if !in_ready && !out_ready && !err_ready {
                return Err(io::Error::new(ErrorKind::TimedOut, "timeout"));
            }
            if in_ready {
                let input = self.input.make_contiguous();
                let chunk: Vec<u8> = input[..WRITE_SIZE.min(input.len())].to_vec();
                let pipe = self.stdin.unwrap();
                let n = with_world(|w| w.sys_write(pipe, &chunk))
                    .unwrap_or_else(|| Err(io::Error::new(ErrorKind::Other, "verif_sim: world vanished")))?;
                self.input.drain(..n);
                if self.input.is_empty() {
                    // close stdin when done writing, so the child receives EOF
                    if let Some(p) = self.stdin.take() {
                        with_world(|w| w.parent_close_write(p));
                    }
                }
            }
            if out_ready {
                self.do_read(1, outvec)?;
            }
            if err_ready {
                self.do_read(2, errvec)?;
            }
        }
        Ok(())
    }
}

impl Drop for SimCommunicator {
    fn drop(&mut self) {
        let ends = (self.stdin.take(), self.stdout.take(), self.stderr.take());
        let pid = self.pid;
        with_world(|w| {
            if let Some(p) = ends.0 {
                w.parent_close_write(p);
            }
            if let Some(p) = ends.1 {
                w.parent_close_read(p);
            }
            if let Some(p) = ends.2 {
                w.parent_close_read(p);
            }
            w.log(LogEv::ParentClose { pid });
        });
    }
}
