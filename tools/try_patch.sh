#!/bin/bash
# usage: tools/try_patch.sh <patch.diff> <prop> [<prop>...]
# Applies a patch to /repo's working tree, runs the quick checks, and always reverts.
set -u
patch="$(realpath "$1")"; shift
cd /verif
if ! git -C /repo diff --quiet; then echo "/repo working tree is dirty"; exit 3; fi
if ! git -C /repo apply "$patch"; then echo "patch does not apply"; exit 3; fi
# always revert, and rebuild the binaries from the clean tree afterwards
trap 'git -C /repo checkout -- . >/dev/null 2>&1; /verif/check setup >/dev/null 2>&1' EXIT
for p in "$@"; do
  out=$(./check "$p" quick 2>&1); rc=$?
  echo "$out" | grep -E "^VIOLATION|^KNOWN|^HARNESS|^vsim: [0-9]+ x" | cut -c1-330
  echo "== $p rc=$rc"
done
