#!/bin/bash
# usage: tools/bg_thorough.sh <seed> <secs-per-property> [props...]
# Thorough tier of every check with private copies of the binaries and of known-findings.json
# (evidence / replays go to a scratch directory), so that work in /verif does not disturb it.
# Meant for `vp run`; lists every run that did not exit 0.
s=$1; secs=$2; shift 2
props=${@:-C05 C12 C13 C14 C15 C18 C20}
out=/verif/scratch/bgt.$s; mkdir -p $out/scratch $out/bin $out/evidence $out/replays
cp /verif/target/debug/vsim /verif/target/debug/scrut /verif/known-findings.json $out/bin/
for p in $props; do
  VERIF_SEED=$s VSIM_THOROUGH_SECS=$secs VSIM_OUT=$out VSIM_SCRATCH=$out/scratch VSIM_KNOWN=$out/bin/known-findings.json VSIM_SCRUT_BIN=$out/bin/scrut VSIM_THREADS=${VSIM_THREADS:-5} $out/bin/vsim check $p thorough > $out/$p.log 2>&1
  rc=$?
  echo "seed=$s $p rc=$rc $(grep -E '^vsim: [0-9]+ runs' $out/$p.log | tail -1 | cut -c1-200)"
  if [ $rc -ne 0 ]; then grep -E "^VIOLATION|^HARNESS|^vsim: [0-9]+ x" $out/$p.log | cut -c1-400; fi
done
rm -rf $out/scratch
echo "thorough seed $s done"
