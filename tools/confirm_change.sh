#!/bin/bash
# usage: tools/confirm_change.sh <scratch worktree of /repo> <dir with patch.diff and demo.sh>
# Independent confirmation of a seeded change: the patch applies to /repo HEAD, builds, the full test
# suite passes with it, the demonstration fails with it and passes without. Writes <dir>/confirm.txt.
set -u
wt="$1"; out="$(realpath "$2")"
export CARGO_TARGET_DIR=$wt/target CARGO_NET_OFFLINE=true
cd "$wt" || exit 3
res=$out/confirm.txt; : > "$res"
git checkout -q -- . 
# (the scratch worktree is a checkout of /repo's HEAD; /repo's own working tree may be in use)
if [ "$(git rev-parse HEAD)" != "$(git -C /repo rev-parse HEAD)" ]; then echo "worktree is not at /repo HEAD" | tee -a "$res"; fi
git apply "$out/patch.diff" || { echo "cannot apply patch.diff in worktree" | tee -a "$res"; exit 3; }
echo "files touched: $(git diff --stat | tail -1)" | tee -a "$res"
if git diff --name-only | grep -qv '^src/'; then echo "WARNING: touches files outside src/" | tee -a "$res"; fi
cargo build --offline -j 8 >/dev/null 2>&1 && echo "build(with): ok" | tee -a "$res" || { echo "build(with): FAILED" | tee -a "$res"; git checkout -q -- .; exit 1; }
t=$(cargo test --workspace --no-fail-fast --offline -j 8 2>&1 | grep -E "^test result" | tr '\n' ' ')
echo "tests(with): $t" | tee -a "$res"
cp target/debug/scrut target/scrut.with
bash "$out/demo.sh" $wt/target/scrut.with >"$out/demo.with.log" 2>&1; echo "demo(with): exit $?" | tee -a "$res"
git checkout -q -- .
cargo build --offline -j 8 >/dev/null 2>&1 && echo "build(without): ok" | tee -a "$res"
cp target/debug/scrut target/scrut.without
bash "$out/demo.sh" $wt/target/scrut.without >"$out/demo.without.log" 2>&1; echo "demo(without): exit $?" | tee -a "$res"
