#!/bin/bash
# usage: eval.sh <prop> : confirm the three changes and run the property's quick check against each
p=$1
for n in 1 2 3; do
  echo "== $p/$n confirm"; /verif/tools/confirm_change.sh /tmp/w24/wt-$p /tmp/w24/out-$p/$n 2>&1 | grep -E "build\(with\)|demo|tests\(with\)|cannot" | cut -c1-90
done
