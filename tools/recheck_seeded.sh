#!/bin/bash
# Re-run every seeded change (sub-agents' and own) against the check of its property and list
# which are (still) detected. Takes roughly half an hour.
cd /verif
out=/verif/scratch/recheck.txt; : > $out
for d in seeded/C*/; do
  id=$(basename $d); p=${id:0:3}
  rc=$(tools/try_patch.sh $d/patch.diff $p 2>&1 | grep -E "^== " | sed 's/.*rc=//')
  echo "$id $p rc=$rc" | tee -a $out
done
declare -A own=( [m01]=C05 [m02]=C05 [m04]=C12 [m05]=C13 [m06]=C13 [m07]=C14 [m08]=C14 [m09]=C15 [m10]=C18 [m11]=C20 [m12]=C20 [m13]=C20 [m14]=C20 [m15]=C18 [m16]=C20 )
for f in seeded/own/*.diff; do
  n=$(basename $f); k=${n:0:3}; p=${own[$k]}
  rc=$(tools/try_patch.sh $f $p 2>&1 | grep -E "^== " | sed 's/.*rc=//')
  echo "own/$n $p rc=$rc" | tee -a $out
done
echo "not detected:"; grep -v "rc=1" $out
