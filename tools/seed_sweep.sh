#!/bin/bash
# usage: tools/seed_sweep.sh <first-seed> <last-seed> [props...]
# Runs the quick checks for a range of VERIF_SEED values (evidence/replays go to a scratch
# directory) and lists every run that did not exit 0 - a false-alarm hunt on the unchanged tree.
a=$1; b=$2; shift 2
props=${@:-C05 C12 C13 C14 C15 C18 C20}
out=/verif/scratch/sweep; mkdir -p $out/scratch $out/bin
# private copies, so that rebuilding /verif/target meanwhile does not disturb the sweep
cp /verif/target/debug/vsim /verif/target/debug/scrut /verif/known-findings.json $out/bin/
for s in $(seq $a $b); do
  for p in $props; do
    VERIF_SEED=$s VSIM_OUT=$out VSIM_SCRATCH=$out/scratch VSIM_KNOWN=$out/bin/known-findings.json VSIM_SCRUT_BIN=$out/bin/scrut VSIM_THREADS=${VSIM_THREADS:-6} $out/bin/vsim check $p quick > $out/$p.$s.log 2>&1
    rc=$?
    if [ $rc -ne 0 ]; then echo "seed=$s $p rc=$rc"; grep -E "^VIOLATION|^HARNESS|^vsim: [0-9]+ x" $out/$p.$s.log | cut -c1-400; fi
  done
done
echo "sweep $a..$b done"
