#!/bin/bash
# usage: tools/confirm_mutant.sh <id>   (worktree /tmp/mut/<id> with the change applied, OUT/ with patch.diff + demo.sh)
# Confirms independently: builds, full test suite passes with the change, demo fails with / passes without.
set -u
id="$1"; wt=/tmp/mut/$id
export CARGO_TARGET_DIR=$wt/target CARGO_NET_OFFLINE=true
cd "$wt" || exit 3
res=$wt/OUT/confirm.txt; : > "$res"
# the patch must be exactly the working-tree change and apply to /repo HEAD
git diff -- src > /tmp/mut/$id.current.diff
if ! git -C /repo apply --check "$wt/OUT/patch.diff" 2>>"$res"; then echo "patch does not apply to /repo HEAD" | tee -a "$res"; fi
git checkout -q -- src && git apply "$wt/OUT/patch.diff" || { echo "cannot re-apply patch.diff in worktree" | tee -a "$res"; exit 3; }
echo "files touched: $(git diff --stat -- . ':!OUT' | tail -1)" | tee -a "$res"
if git diff --name-only | grep -qv '^src/'; then echo "WARNING: touches files outside src/" | tee -a "$res"; fi
cargo build --offline >/dev/null 2>&1 && echo "build(with): ok" | tee -a "$res" || { echo "build(with): FAILED" | tee -a "$res"; exit 1; }
t=$(cargo test --workspace --no-fail-fast --offline 2>&1 | grep -E "^test result" | tr '\n' ' ')
echo "tests(with): $t" | tee -a "$res"
cp target/debug/scrut target/scrut.with
bash OUT/demo.sh $wt/target/scrut.with >OUT/demo.with.log 2>&1; echo "demo(with): exit $?" | tee -a "$res"
git apply -R "$wt/OUT/patch.diff"
cargo build --offline >/dev/null 2>&1 && echo "build(without): ok" | tee -a "$res"
cp target/debug/scrut target/scrut.without
bash OUT/demo.sh $wt/target/scrut.without >OUT/demo.without.log 2>&1; echo "demo(without): exit $?" | tee -a "$res"
git apply "$wt/OUT/patch.diff"
