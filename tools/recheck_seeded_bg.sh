#!/bin/bash
# usage: vp run --with-repo --timeout 6h -- tools/recheck_seeded_bg.sh [first-id-prefix...]
# Every seeded change against the quick check of its property, in a private copy of the
# repository ($VP_RUN_REPO) and of the framework (the snapshot this runs in), so that work in
# /repo and /verif goes on undisturbed. Results: recheck/results.txt in the snapshot.
here=$(pwd)
repo=${VP_RUN_REPO:?needs vp run --with-repo}
out=$here/recheck; mkdir -p $out/scratch
export CARGO_NET_OFFLINE=true CARGO_TARGET_DIR=$here/target-recheck CARGO_TERM_COLOR=never
sed -i "s#path = \"/repo\"#path = \"$repo\"#" $here/harness/Cargo.toml
point() { sed -i "s#\"/verif/simcore/mod.rs\"#\"$here/simcore/mod.rs\"#" $repo/src/lib.rs; }
build() {
  point
  (cd $repo && cargo build --offline --features verif_sim --bin scrut -j ${JOBS:-8}) >$out/build.log 2>&1 || return 1
  (cd $here/harness && cargo build --offline -j ${JOBS:-8}) >>$out/build.log 2>&1 || return 1
}
run() { # prop
  VSIM_OUT=$out VSIM_SCRATCH=$out/scratch VSIM_KNOWN=$here/known-findings.json VSIM_SCRUT_BIN=$CARGO_TARGET_DIR/debug/scrut VSIM_THREADS=${VSIM_THREADS:-6} \
    $CARGO_TARGET_DIR/debug/vsim check $1 quick > $out/last.log 2>&1
  echo $?
}
: > $out/results.txt
build || { echo "baseline build failed"; tail -20 $out/build.log; exit 2; }
for p in C05 C12 C13 C14 C15 C18 C20; do echo "baseline $p rc=$(run $p)" | tee -a $out/results.txt; done
# RECHECK_STRIDE=n RECHECK_OFFSET=k: every n-th change only, starting with the k-th (a sample)
n=0
for d in $here/seeded/C*/; do
  id=$(basename $d); p=${id:0:3}
  n=$((n+1)); if [ $(( (n + ${RECHECK_OFFSET:-0}) % ${RECHECK_STRIDE:-1} )) -ne 0 ]; then continue; fi
  git -C $repo checkout -q -- . ; point
  if ! git -C $repo apply $d/patch.diff 2>/dev/null; then echo "$id $p rc=apply-failed" | tee -a $out/results.txt; continue; fi
  if ! build; then echo "$id $p rc=build-failed" | tee -a $out/results.txt; continue; fi
  rc=$(run $p)
  cls=$(grep -E "^vsim: [0-9]+ x|^vsim: C[0-9]+/" $out/last.log | sed -E 's/^vsim: ([0-9]+ x )?//; s/ - .*//' | sort -u | tr '\n' ' ' | cut -c1-200)
  echo "$id $p rc=$rc $cls" | tee -a $out/results.txt
  rm -rf $out/replays $out/scratch/*
done
git -C $repo checkout -q -- .
echo "recheck done"; grep -v "rc=1" $out/results.txt
