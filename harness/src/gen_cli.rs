//! Lanes for the command-line tier and the random swarm lanes.

use scrut::verif_sim::scenario::*;

use crate::gen::*;
use crate::scn::*;

fn all_checks() -> Vec<String> {
    ["C05", "C12", "C13", "C14", "C15", "C18", "C20"].iter().map(|s| s.to_string()).collect()
}

/// the systematic fate / fault lanes through the real binary (every `stride`-th scenario)
pub fn lane_cli_fates(seed: u64, stride: usize) -> Vec<Scenario> {
    let mut v = lane_fates(Tier::Cli, seed);
    v.extend(lane_faults(Tier::Cli, seed));
    v.into_iter()
        .enumerate()
        .filter(|(i, _)| i % stride.max(1) == 0)
        .map(|(i, mut s)| {
            s.lane = format!("cli-{}", s.lane);
            s.cli.debug = i % 3 == 2;
            s.cli.verbose = i % 4 == 1;
            s.cli.log_level = [None, None, Some("debug"), None, Some("trace")][i % 5].map(|x| x.to_string());
            s
        })
        .collect()
}

pub fn lane_cli_timing(seed: u64, stride: usize) -> Vec<Scenario> {
    lane_timing(Tier::Cli, seed)
        .into_iter()
        .enumerate()
        .filter(|(i, s)| i % stride.max(1) == 0 || s.lane.contains("/with-") || s.lane.contains("/wait-DurOver"))
        .map(|(i, mut s)| {
            s.lane = format!("cli-{}", s.lane);
            // (every third with `--debug`: what scrut prints about its work changes nothing of it)
            s.cli.debug = i % 3 == 1;
            s.cli.verbose = i % 4 == 2;
            s.cli.log_level = [None, Some("debug"), None, Some("trace"), None, Some("error")][i % 6].map(|x| x.to_string());
            s
        })
        .collect()
}

// ------------------------------------------------------------------ random swarm

fn random_plan(g: &mut G, allow_per_test_cfg: bool, finite_limit: bool) -> Plan {
    let cat = fate_catalogue();
    loop {
        let r = g.below(100);
        let mut plan = if r < 35 {
            Plan::new(Fate::Pass)
        } else if r < 80 {
            g.pick(&cat).1.clone()
        } else if r < 88 {
            let code = g.below(256) as i32;
            let expected = match g.below(3) {
                0 => None,
                1 => Some(code),
                _ => Some(g.below(256) as i32),
            };
            Plan::new(Fate::Code {
                code,
                expected,
                exit_shell: g.chance(40),
            })
        } else if r < 94 && g.chance(30) {
            let sig = *g.pick(&[9u8, 11, 15, 6, 2, 1]);
            let expected = *g.pick(&[128 + sig as i32, sig as i32, 255]);
            Plan::new(Fate::DieExpecting { sig, expected })
        } else if r < 94 {
            Plan::new(Fate::Die {
                sig: *g.pick(&[9u8, 11, 15, 6, 2, 1]),
                after_lines: g.below(3) as usize,
                no_expectations: g.chance(40),
            })
        } else if r < 97 {
            Plan::new(Fate::Slow {
                ns: *g.pick(&[MS, 100 * MS, SEC, 3 * SEC, 30 * SEC, 5000 * SEC]),
            })
        } else if r < 98 && g.chance(50) {
            let b = *g.pick(&[300 * MS, SEC, 2 * SEC]);
            Plan::new(Fate::LateClose { before_ns: b, after_ns: *g.pick(&[b / 2, b, 3 * b]) })
        } else if r < 98 {
            Plan::new(Fate::CloseThenLinger {
                ns: Some(*g.pick(&[MS, SEC, 100 * SEC])),
            })
        } else {
            Plan::new(Fate::Hang)
        };
        plan.lines = g.below(5) as usize;
        if !allow_per_test_cfg
            && (plan.cfg != TestCfg::default() || plan.fate == Fate::Detached || matches!(plan.fate, Fate::CloseThenLinger { .. } | Fate::LateClose { .. } | Fate::BgLate { .. } | Fate::CloseOne { .. }))
        {
            continue;
        }
        if plan.fate == Fate::Hang && !finite_limit && plan.cfg.timeout_ns.is_none() {
            continue;
        }
        if allow_per_test_cfg && g.chance(10) && plan.cfg.timeout_ns.is_none() && plan.fate != Fate::Detached {
            plan.cfg.timeout_ns = Some(*g.pick(&[MS, 500 * MS, 2 * SEC, 20 * SEC, 3600 * SEC, 86_400 * SEC, 30 * 86_400 * SEC]));
        }
        if allow_per_test_cfg && g.chance(8) && plan.fate != Fate::Detached {
            plan.cfg.wait = Some(Wait {
                timeout_ns: *g.pick(&[100 * MS, 2 * SEC, 10 * SEC, 100 * SEC]),
                path: if g.chance(30) { Some("never-there.flag".into()) } else { None },
            });
        }
        return plan;
    }
}

fn random_doc(g: &mut G, sim: &mut SimScenario, path: &str, format: Format, per_test_cfg: bool, n_tests: usize, finite: bool) -> Doc {
    let mut tests = vec![];
    for _ in 0..n_tests {
        let p = random_plan(g, per_test_cfg, finite);
        tests.push(g.test(&p, &mut sim.programs));
    }
    doc(path, format, tests)
}

fn random_faults(g: &mut G, sim: &mut SimScenario, n_procs: u32) {
    if n_procs == 0 || !g.chance(25) {
        return;
    }
    let cat = fault_catalogue();
    let k = 1 + g.below(((n_procs / 4).max(1)) as u64) as usize;
    for _ in 0..k {
        let (_, mk) = g.pick(&cat);
        sim.faults.push(mk(g.below(n_procs as u64) as u32));
    }
}

/// Random swarm lane. `tag` only salts the seed so that different properties' checks do not
/// sample the same scenarios.
pub fn lane_random(tier: Tier, seed: u64, n: usize, tag: &str) -> Vec<Scenario> {
    lane_random_from(tier, seed, 0, n, tag)
}

/// scenarios number `start .. start + n` of the (unbounded) random lane
pub fn lane_random_from(tier: Tier, seed: u64, start: usize, n: usize, tag: &str) -> Vec<Scenario> {
    let mut out = Vec::with_capacity(n);
    let salt = tag.bytes().fold(0u64, |a, b| a.wrapping_mul(131).wrapping_add(b as u64));
    for i in start..start + n {
        let mut g = G::new(seed ^ salt.rotate_left(17) ^ ((i as u64) << 20) ^ if tier == Tier::Cli { 0xc11 } else { 0x11b });
        let mut sim = base_sim(g.rng.next_u64());
        sim.swarm = swarm(&mut g);
        let sc = match tier {
            Tier::Lib => {
                let script = g.chance(30);
                let unlimited = g.chance(10);
                let n_tests = 1 + g.below(5) as usize;
                let mut d = random_doc(&mut g, &mut sim, "rand.md", Format::Md, !script, n_tests, !unlimited);
                if unlimited {
                    d.total_timeout_ns = Some(0);
                } else if g.chance(40) {
                    d.total_timeout_ns = Some(*g.pick(&[SEC, 5 * SEC, 60 * SEC, 3600 * SEC, 7 * 86_400 * SEC]));
                }
                let mut cli = Cli::default();
                if g.chance(15) && !unlimited {
                    cli.timeout_seconds = Some(*g.pick(&[1u64, 3, 10, 3600, 100_000]));
                }
                // stream at a random layer
                let s = *g.pick(&[Stream::Stdout, Stream::Stderr, Stream::Combined]);
                match g.below(4) {
                    0 => d.defaults.output_stream = Some(if script && s == Stream::Stderr { Stream::Stdout } else { s }),
                    1 if !script => {
                        let k = g.below(d.tests.len() as u64) as usize;
                        d.tests[k].cfg.output_stream = Some(s);
                    }
                    2 => cli.combine_output = Some(g.chance(50)),
                    _ => {}
                }
                if g.chance(15) {
                    d.defaults.skip_code = Some(*g.pick(&[1i32, 33, 80, 255]));
                }
                let n_procs = if script { 1 } else { d.tests.len() as u32 };
                random_faults(&mut g, &mut sim, n_procs);
                Scenario {
                    lane: format!("random-lib/{}", i),
                    tier,
                    script_mode: script,
                    docs: vec![d],
                    cli,
                    sim,
                    pretty: false,
                    check: all_checks(),
                    partner: None,
                    turns: None,
                }
            }
            Tier::Cli => {
                let n_docs = 1 + g.below(3) as usize;
                let mut docs = vec![];
                let mut cli = Cli::default();
                cli.cram_compat = g.chance(10);
                cli.relative_paths = g.chance(40);
                let unlimited = g.chance(5);
                if unlimited {
                    cli.timeout_seconds = Some(0);
                } else if g.chance(20) {
                    cli.timeout_seconds = Some(*g.pick(&[2u64, 5, 30, 4000, 1_000_000]));
                }
                let mut n_procs = 0u32;
                for k in 0..n_docs {
                    let cram = g.chance(35);
                    let dir = if g.chance(50) { format!("d{}/", k) } else { String::new() };
                    let name = if g.chance(30) { "same".to_string() } else { format!("doc{}", k) };
                    let ext = if cram {
                        *g.pick(&["t", "t", "cram"])
                    } else {
                        *g.pick(&["md", "md", "markdown"])
                    };
                    let path = format!("{}{}.{}", dir, name, ext);
                    if docs.iter().any(|d: &Doc| d.path == path) {
                        continue;
                    }
                    let script = cram || cli.cram_compat;
                    let n_tests = 1 + g.below(4) as usize;
                    let mut d = random_doc(&mut g, &mut sim, &path, if cram { Format::Cram } else { Format::Md }, !script, n_tests, !unlimited);
                    if !cram && !unlimited && g.chance(25) {
                        d.total_timeout_ns = Some(*g.pick(&[SEC, 4 * SEC, 120 * SEC, 36_000 * SEC]));
                    }
                    if !cram && g.chance(20) {
                        d.defaults.output_stream = Some(*g.pick(&[Stream::Stdout, Stream::Combined]));
                    }
                    if !cram && g.chance(10) {
                        d.defaults.skip_code = Some(*g.pick(&[33i32, 80, 3]));
                    }
                    if !cram && g.chance(10) {
                        d.defaults.keep_crlf = Some(g.chance(70));
                    }
                    if !cram && g.chance(30) {
                        d.loose_front_matter = true;
                    }
                    if !cram && g.chance(25) {
                        d.fence_trailing_space = true;
                    }
                    if !cram && g.chance(25) {
                        d.fence_wide_gap = true;
                    }
                    if !cram && g.chance(20) {
                        d.long_closing_fence = true;
                    }
                    n_procs += if script { 1 } else { d.tests.len() as u32 };
                    // shared set-up / tear-down documents
                    if !cram && !script && g.chance(20) {
                        let ppath = format!("{}pre{}.md", dir, k);
                        let pd = {
                            let np = 1 + g.below(2) as usize;
                            let mut p = random_doc(&mut g, &mut sim, &ppath, Format::Md, false, np, !unlimited);
                            p.main = false;
                            p
                        };
                        n_procs += pd.tests.len() as u32;
                        if g.chance(50) {
                            d.prepend.push(format!("pre{}.md", k));
                        } else {
                            d.append.push(format!("pre{}.md", k));
                        }
                        docs.push(pd);
                    }
                    docs.push(d);
                }
                match g.below(10) {
                    0 | 1 => cli.work_directory = true,
                    2 => cli.keep_tmp = true,
                    _ => {}
                }
                if g.chance(15) {
                    cli.combine_output = Some(g.chance(50));
                }
                if g.chance(10) {
                    cli.keep_crlf = Some(g.chance(50));
                }
                if g.chance(12) {
                    cli.debug = true;
                }
                if g.chance(15) {
                    cli.verbose = true;
                }
                if g.chance(15) {
                    cli.log_level = Some((*g.pick(&["debug", "trace", "info", "error"])).to_string());
                }
                if g.chance(8) {
                    // another shell that exists (the simulator does not care which one it is)
                    cli.shell = Some((*g.pick(&["/bin/sh", "/usr/bin/bash", "bash"])).to_string());
                }
                random_faults(&mut g, &mut sim, n_procs);
                if g.chance(20) {
                    // a second scrut instance at work in the same temp root
                    let at = g.below(n_procs.max(1) as u64) as u32;
                    let name = format!("{}.peer{:02}", g.pick(&["execution", "temp"]), g.below(100));
                    let base = if cli.work_directory && g.chance(50) { "$WORK" } else { "$TMP" };
                    sim.peer.push(PeerAction {
                        at_spawn: at,
                        action: "mkdir".into(),
                        path: format!("{}/{}/sub", base, name),
                    });
                    if g.chance(40) {
                        sim.peer.push(PeerAction {
                            at_spawn: at + 1,
                            action: "rmdir".into(),
                            path: format!("{}/{}", base, name),
                        });
                    }
                }
                Scenario {
                    lane: format!("random-cli/{}", i),
                    tier,
                    script_mode: false,
                    docs,
                    cli,
                    sim,
                    pretty: false,
                    check: all_checks(),
                    partner: None,
                    turns: None,
                }
            }
        };
        let mut sc = sc;
        fill_expectations(&mut sc, &mut g);
        out.push(sc);
    }
    out
}

/// C12 (a): per-process documents mixing every way a test case can end
pub fn lane_state(seed: u64, n: usize) -> Vec<Scenario> {
    let mut out = vec![];
    for i in 0..n {
        let mut g = G::new(seed ^ 0x57a7e ^ ((i as u64) << 16));
        let mut sim = base_sim(g.rng.next_u64());
        sim.swarm = swarm(&mut g);
        // (every twentieth document is long: two-digit execution indices)
        let n_tests = if i % 20 == 7 { 11 + g.below(4) as usize } else { 2 + g.below(5) as usize };
        let mut tests = vec![];
        for _ in 0..n_tests {
            let plan = match g.below(if n_tests > 10 { 14 } else { 10 }) {
                0 => Plan::new(Fate::Detached),
                1 => Plan::new(Fate::Code {
                    code: g.below(200) as i32,
                    expected: None,
                    exit_shell: true,
                }),
                2 => Plan::new(Fate::Die {
                    sig: *g.pick(&[9u8, 15, 11]),
                    after_lines: 1,
                    no_expectations: false,
                }),
                3 => Plan::new(Fate::Hang).cfg(TestCfg {
                    timeout_ns: Some(SEC),
                    ..Default::default()
                }),
                4 => Plan::new(Fate::WrongOutput),
                _ => Plan::new(Fate::Pass),
            };
            tests.push(g.test(&plan, &mut sim.programs));
        }
        random_faults(&mut g, &mut sim, n_tests as u32);
        let mut d = doc("state.md", Format::Md, tests);
        // `detached` from the document defaults, switched off again inline on some test cases
        if g.chance(12) {
            d.defaults.detached = Some(true);
            for t in d.tests.iter_mut() {
                if g.chance(50) {
                    t.cfg.detached = Some(false);
                } else {
                    t.expectations = vec![];
                }
            }
        }
        // a detached helper followed by a test case that waits
        if g.chance(20) {
            for k in 1..d.tests.len() {
                if d.tests[k - 1].cfg.detached == Some(true) && d.tests[k].cfg.detached != Some(true) {
                    d.tests[k].cfg.wait = Some(Wait { timeout_ns: *g.pick(&[10 * MS, 200 * MS, 2 * SEC]), path: None });
                }
            }
        }
        let tests_placeholder: Vec<Test> = vec![];
        let _ = tests_placeholder;
        let mut sc = Scenario {
            lane: format!("state/{}", i),
            tier: Tier::Lib,
            script_mode: false,
            docs: vec![d],
            cli: Cli::default(),
            sim,
            pretty: false,
            check: all_checks(),
            partner: None,
            turns: None,
        };
        fill_expectations(&mut sc, &mut g);
        out.push(sc);
    }
    out
}

/// C13 through the binary: large CR LF payloads (a stack overflow aborts the process, so these
/// need a process of their own)
pub fn lane_cli_bytes(seed: u64, n: usize) -> Vec<Scenario> {
    let mut out = vec![];
    let sizes: [u64; 8] = [1, 1_000, 20_000, 100_000, 300_000, 500_000, 1_000_000, 4_000_000];
    for i in 0..n {
        let mut g = G::new(seed ^ 0xb16 ^ ((i as u64) << 12));
        let pairs = sizes[i % sizes.len()];
        let mut sim = base_sim(g.rng.next_u64());
        let nonce = g.nonce();
        let tag = nonce[..6].to_string();
        let to_stderr = i % 3 == 1;
        let (big_fd, small_fd) = if to_stderr { (2, 1) } else { (1, 2) };
        sim.programs.insert(
            nonce.clone(),
            vec![
                Op::OutRepeat {
                    fd: big_fd,
                    unit: if i % 2 == 0 { "\r\n".into() } else { "ab\r\n".into() },
                    times: pairs,
                },
                Op::Out {
                    fd: small_fd,
                    data: format!("{}-ok\n", tag).as_str().into(),
                },
                Op::Status { code: 0 },
            ],
        );
        let cram = i % 4 == 3;
        let t = Test {
            title: format!("Big {}", nonce),
            expr: format!("vsim-cmd @vs:{}@ big @ve:{}@", nonce, nonce),
            nonce,
            expected_code: None,
            expectations: vec![format!("{}-ok", tag)],
            expect_match: true,
            cfg: if cram {
                TestCfg::default()
            } else {
                TestCfg {
                    output_stream: Some(if to_stderr { Stream::Stdout } else { Stream::Stderr }),
                    keep_crlf: if i % 5 == 4 { Some(true) } else { None },
                    ..Default::default()
                }
            },
        };
        let mut cli = Cli::default();
        let d = if cram {
            // Cram documents keep CR LF by default; ask for the translation on the command line
            cli.keep_crlf = Some(false);
            cli.combine_output = Some(false);
            let mut t = t;
            if to_stderr {
                // only stdout can be selected in a Cram document: put the small output there
                t.expectations = vec![format!("{}-ok", tag)];
            } else {
                // big payload on stdout would have to be matched: use the stderr-big variant instead
                let ops = sim.programs.get_mut(&t.nonce).unwrap();
                ops[0] = Op::OutRepeat {
                    fd: 2,
                    unit: "\r\n".into(),
                    times: pairs,
                };
                ops[1] = Op::Out {
                    fd: 1,
                    data: format!("{}-ok\n", tag).as_str().into(),
                };
            }
            doc("big.t", Format::Cram, vec![t])
        } else {
            doc("big.md", Format::Md, vec![t])
        };
        out.push(Scenario {
            lane: format!("cli-bytes/crlf-{}/{}", pairs, i),
            tier: Tier::Cli,
            script_mode: false,
            docs: vec![d],
            cli,
            sim,
            pretty: false,
            check: vec!["C13".into(), "C05".into(), "C20".into()],
            partner: None,
            turns: None,
        });
    }
    out
}

/// C15 through the binary: the skipping test at every position, default / custom codes, other
/// documents in the same run
pub fn lane_skip(seed: u64) -> Vec<Scenario> {
    let mut out = vec![];
    let mut g = G::new(seed ^ 0x5c1b);
    #[derive(Clone, Copy, Debug, PartialEq)]
    enum How {
        Default80,
        CustomDefaults,
        CustomInline,
        OtherTestsCode,
        EightyButCustom,
        /// both layers set: the inline code (33) is the test's skip code, the defaults' (99) is not
        LayeredInlineWins,
        /// both layers set and the test exits with the defaults' code (99), which is not its skip code
        LayeredDefaultsCodeNoSkip,
        /// the custom code is 0: a test case that simply succeeds skips the document
        CustomZero,
        /// front-matter says 33, the test case sets its own code back to the built-in 80 and exits 80
        InlineDefaultValueOverCustomDefaults,
        /// same layers, but the test case exits 33 - which is not ITS skip code
        InlineDefaultValueNoSkip,
        /// the custom code sits next to other keys of the same inline configuration
        CustomInlineWithOtherKeys,
        /// front-matter says 33, the test case exits with the built-in 80: no skip
        EightyButCustomDefaults,
        /// front-matter says 33; the exiting test case has an inline configuration WITHOUT a skip
        /// code (timeout, keep_crlf) and exits 33: the document's code still applies to it
        CustomDefaultsOtherInlineKeys,
        /// a code no process can end with: 336 (= 80 + 256); the test case exits 80: no skip
        Beyond255LowByte80,
        /// ... and 256; the test case exits 0: no skip
        Beyond255LowByte0,
    }
    for mode in ["md", "cram", "md-compat"] {
        let cram = mode != "md";
        let compat = mode == "md-compat";
        for how in [
            How::Default80,
            How::CustomDefaults,
            How::CustomInline,
            How::OtherTestsCode,
            How::EightyButCustom,
            How::LayeredInlineWins,
            How::LayeredDefaultsCodeNoSkip,
            How::CustomZero,
            How::CustomInlineWithOtherKeys,
            How::InlineDefaultValueOverCustomDefaults,
            How::InlineDefaultValueNoSkip,
            How::EightyButCustomDefaults,
            How::CustomDefaultsOtherInlineKeys,
            How::Beyond255LowByte80,
            How::Beyond255LowByte0,
        ] {
            if mode == "cram" && how != How::Default80 {
                continue;
            }
            // single-script mode has no per-test settings: front-matter defaults only
            if compat && !matches!(how, How::Default80 | How::CustomDefaults | How::EightyButCustomDefaults | How::Beyond255LowByte80 | How::Beyond255LowByte0) {
                continue;
            }
            for pos in 0..3usize {
                for expected in [None, Some(true), Some(false)] {
                    for other in ["pass", "fail", "skip"] {
                        let mut sim = base_sim(g.rng.next_u64());
                        let code = match how {
                            How::Default80 | How::EightyButCustom | How::InlineDefaultValueOverCustomDefaults | How::EightyButCustomDefaults | How::Beyond255LowByte80 => 80,
                            How::Beyond255LowByte0 => 0,
                            How::LayeredDefaultsCodeNoSkip => 99,
                            How::CustomZero => 0,
                            _ => 33,
                        };
                        let exp = match expected {
                            None => None,
                            Some(true) => Some(code),
                            Some(false) => Some(5),
                        };
                        let mut tests = vec![];
                        for k in 0..3 {
                            let plan = if k == pos {
                                let mut p = Plan::new(Fate::Code {
                                    code,
                                    expected: exp,
                                    exit_shell: k % 2 == 0 && !cram,
                                });
                                if how == How::CustomInline {
                                    p.cfg.skip_code = Some(33);
                                }
                                if how == How::CustomInlineWithOtherKeys {
                                    p.cfg.skip_code = Some(33);
                                    p.cfg.timeout_ns = Some(30 * SEC);
                                    p.cfg.keep_crlf = Some(true);
                                    p.cfg.wait = Some(Wait { timeout_ns: 10 * MS, path: None });
                                }
                                if how == How::CustomZero {
                                    p.cfg.skip_code = Some(0);
                                }
                                if how == How::CustomDefaultsOtherInlineKeys {
                                    p.cfg.timeout_ns = Some(30 * SEC);
                                    p.cfg.keep_crlf = Some(true);
                                }
                                if matches!(how, How::InlineDefaultValueOverCustomDefaults | How::InlineDefaultValueNoSkip) {
                                    p.cfg.skip_code = Some(80);
                                }
                                if matches!(how, How::EightyButCustom | How::LayeredInlineWins | How::LayeredDefaultsCodeNoSkip) {
                                    p.cfg.skip_code = Some(33);
                                }
                                p
                            } else if k < pos && k == 0 {
                                Plan::new(Fate::WrongOutput)
                            } else {
                                let mut p = Plan::new(Fate::Pass);
                                if how == How::OtherTestsCode {
                                    // 33 is this (other) test's skip code, not the exiting one's
                                    p.cfg.skip_code = Some(33);
                                }
                                p
                            };
                            tests.push(g.test(&plan, &mut sim.programs));
                        }
                        let (f, ext) = if mode == "cram" { (Format::Cram, "t") } else { (Format::Md, "md") };
                        let mut a = doc(&format!("a/skipper.{}", ext), f, tests);
                        // (how the fences are written must not matter)
                        a.fence_wide_gap = pos == 1;
                        a.long_closing_fence = pos == 2;
                        if how == How::CustomDefaults || how == How::EightyButCustomDefaults || how == How::CustomDefaultsOtherInlineKeys {
                            a.defaults.skip_code = Some(33);
                        }
                        if how == How::Beyond255LowByte80 {
                            a.defaults.skip_code = Some(336);
                        }
                        if how == How::Beyond255LowByte0 {
                            a.defaults.skip_code = Some(256);
                        }
                        if matches!(how, How::LayeredInlineWins | How::LayeredDefaultsCodeNoSkip) {
                            a.defaults.skip_code = Some(99);
                        }
                        if matches!(how, How::InlineDefaultValueOverCustomDefaults | How::InlineDefaultValueNoSkip) {
                            a.defaults.skip_code = Some(33);
                        }
                        let other_plan = match other {
                            "pass" => Plan::new(Fate::Pass),
                            "fail" => Plan::new(Fate::WrongOutput),
                            _ => Plan::new(Fate::Code {
                                code: 80,
                                expected: None,
                                exit_shell: false,
                            }),
                        };
                        let bt = vec![g.test(&Plan::new(Fate::Pass), &mut sim.programs), g.test(&other_plan, &mut sim.programs)];
                        let b = doc(&format!("b/other.{}", if pos % 2 == 0 { "md" } else { "t" }), if pos % 2 == 0 { Format::Md } else { Format::Cram }, bt);
                        let docs = if pos == 1 { vec![b, a] } else { vec![a, b] };
                        let mut sc = Scenario {
                            lane: format!("skip/{}/{:?}/pos{}/exp{:?}/other-{}", mode, how, pos, expected, other),
                            tier: Tier::Cli,
                            script_mode: false,
                            docs,
                            cli: Cli { cram_compat: compat, verbose: pos == 1, log_level: if pos == 2 { Some("debug".into()) } else { None }, ..Default::default() },
                            sim,
                            pretty: false,
                            check: all_checks(),
                            partner: None,
                            turns: None,
                        };
                        fill_expectations(&mut sc, &mut g);
                        out.push(sc);
                    }
                }
            }
        }
    }
    out
}

fn outcome_plans() -> Vec<(&'static str, Vec<Plan>, Vec<Fault>)> {
    let to = |ns| TestCfg {
        timeout_ns: Some(ns),
        ..Default::default()
    };
    vec![
        ("all-pass", vec![Plan::new(Fate::Pass), Plan::new(Fate::Pass)], vec![]),
        ("validation-failure", vec![Plan::new(Fate::Pass), Plan::new(Fate::WrongOutput), Plan::new(Fate::Pass)], vec![]),
        ("wrong-code", vec![Plan::new(Fate::Code { code: 4, expected: None, exit_shell: true }), Plan::new(Fate::Pass)], vec![]),
        ("test-timeout-hang", vec![Plan::new(Fate::Pass), Plan::new(Fate::Hang).cfg(to(SEC)), Plan::new(Fate::Pass)], vec![]),
        ("test-timeout-slow", vec![Plan::new(Fate::Slow { ns: 5 * SEC }).cfg(to(SEC)), Plan::new(Fate::Pass)], vec![]),
        ("test-timeout-zero", vec![Plan::new(Fate::Slow { ns: SEC }).cfg(to(0)), Plan::new(Fate::Pass)], vec![]),
        ("skip", vec![Plan::new(Fate::Pass), Plan::new(Fate::Code { code: 80, expected: None, exit_shell: false })], vec![]),
        ("die-kill", vec![Plan::new(Fate::Die { sig: 9, after_lines: 1, no_expectations: false }), Plan::new(Fate::Pass)], vec![]),
        ("die-term", vec![Plan::new(Fate::Pass), Plan::new(Fate::Die { sig: 15, after_lines: 0, no_expectations: true })], vec![]),
        ("die-kill-expecting-137", vec![Plan::new(Fate::DieExpecting { sig: 9, expected: 137 }), Plan::new(Fate::Pass)], vec![]),
        ("detached-then-pass", vec![Plan::new(Fate::Detached), Plan::new(Fate::Pass)], vec![]),
        ("detached-last", vec![Plan::new(Fate::Pass), Plan::new(Fate::WrongOutput), Plan::new(Fate::Detached)], vec![]),
        ("only-detached", vec![Plan::new(Fate::Detached), Plan::new(Fate::Detached)], vec![]),
        ("detached-between-failures", vec![Plan::new(Fate::WrongOutput), Plan::new(Fate::Detached), Plan::new(Fate::Code { code: 2, expected: None, exit_shell: false })], vec![]),
        ("spawn-failure", vec![Plan::new(Fate::Pass), Plan::new(Fate::Pass)], vec![Fault::Spawn { nth: 1, errno: 11 }]),
        ("spawn-failure-first", vec![Plan::new(Fate::Pass)], vec![Fault::Spawn { nth: 0, errno: 2 }]),
        ("wait-failure", vec![Plan::new(Fate::Pass), Plan::new(Fate::Pass)], vec![Fault::Wait { proc: 0, errno: 10 }]),
        ("poll-eintr", vec![Plan::new(Fate::Pass), Plan::new(Fate::Pass)], vec![Fault::PollEintr { proc: 1, nth: 1 }]),
        (
            "detached-then-timeout",
            vec![Plan::new(Fate::Detached), Plan::new(Fate::Pass), Plan::new(Fate::Hang).cfg(to(SEC)), Plan::new(Fate::Pass)],
            vec![],
        ),
        ("bg-hold-timeout", vec![Plan::new(Fate::BgHold { ns: 30 * SEC }).cfg(to(2 * SEC)), Plan::new(Fate::Pass)], vec![]),
        (
            "closed-streams-timeout",
            vec![Plan::new(Fate::Pass), Plan::new(Fate::CloseThenLinger { ns: Some(30 * SEC) }).cfg(to(SEC)), Plan::new(Fate::Pass)],
            vec![],
        ),
        (
            "user-environment-first",
            {
                let mut p = Plan::new(Fate::Pass);
                for (k, v) in [("TMPDIR", "/nonexistent-users-own-tmp"), ("LANG", "de_DE.UTF-8"), ("VS_USER", "mine"), ("TESTFILE", "other.md")] {
                    p.cfg.env.insert(k.into(), v.into());
                }
                vec![p, Plan::new(Fate::Pass), Plan::new(Fate::WrongOutput)]
            },
            vec![],
        ),
        (
            "user-environment-later",
            {
                let mut p = Plan::new(Fate::Pass);
                p.cfg.env.insert("TMPDIR".into(), "/nonexistent-users-own-tmp".into());
                p.cfg.env.insert("VS_USER".into(), "mine".into());
                vec![Plan::new(Fate::Pass), p, Plan::new(Fate::Pass)]
            },
            vec![],
        ),
        ("closed-streams-linger-ok", vec![Plan::new(Fate::CloseThenLinger { ns: Some(200 * MS) }), Plan::new(Fate::Pass)], vec![]),
    ]
}

/// C15: the skip code comes from a prepended / appended document's test case, or from a
/// detached test case (whose exit code scrut never sees: no skip)
pub fn lane_skip_interplay(seed: u64) -> Vec<Scenario> {
    let mut out = vec![];
    let mut g = G::new(seed ^ 0x15c1);
    for which in ["prepend-skips", "append-skips", "detached-80", "skip-after-failure", "skip-with-wait", "fail-then-die", "compat-md", "cram-skip-then-exit"] {
        for pos in 0..2usize {
            let mut sim = base_sim(g.rng.next_u64());
            let skip = Plan::new(Fate::Code { code: 80, expected: None, exit_shell: pos == 0 });
            let pass = Plan::new(Fate::Pass);
            let mut cli = Cli::default();
            let mut docs = vec![];
            let mk = |g: &mut G, sim: &mut SimScenario, path: &str, plans: &[Plan]| {
                let tests = plans.iter().map(|p| g.test(p, &mut sim.programs)).collect();
                doc(path, Format::Md, tests)
            };
            match which {
                "prepend-skips" | "append-skips" => {
                    let plans = if pos == 0 { vec![skip.clone(), pass.clone()] } else { vec![pass.clone(), skip.clone()] };
                    let mut shared = mk(&mut g, &mut sim, "k/shared.md", &plans);
                    shared.main = false;
                    let mut main = mk(&mut g, &mut sim, "k/main.md", &[pass.clone(), Plan::new(Fate::WrongOutput)]);
                    if which == "prepend-skips" {
                        main.prepend.push("shared.md".into());
                    } else {
                        main.append.push("shared.md".into());
                    }
                    docs.push(shared);
                    docs.push(main);
                }
                "detached-80" => {
                    let mut det = Plan::new(Fate::Detached);
                    det.title_tag = "det".into();
                    let mut d = mk(&mut g, &mut sim, "k/det.md", &[pass.clone(), det, pass.clone()]);
                    // the detached command ends with 80 - nobody is looking
                    let n = d.tests[1].nonce.clone();
                    sim.programs.insert(n, vec![Op::Sleep { ns: 10 * MS }, Op::Status { code: 80 }]);
                    if pos == 1 {
                        d.tests.swap(0, 1);
                    }
                    docs.push(d);
                }
                "skip-after-failure" => {
                    let plans = vec![Plan::new(Fate::WrongOutput), Plan::new(Fate::Code { code: 3, expected: None, exit_shell: false }), skip.clone(), pass.clone()];
                    docs.push(mk(&mut g, &mut sim, "k/late.md", &plans));
                    docs.push(mk(&mut g, &mut sim, "k/other.md", &[pass.clone()]));
                }
                "skip-with-wait" => {
                    let mut s2 = skip.clone();
                    s2.cfg.wait = Some(Wait { timeout_ns: 300 * MS, path: None });
                    s2.cfg.timeout_ns = Some(5 * SEC);
                    docs.push(mk(&mut g, &mut sim, "k/wait.md", &[pass.clone(), s2, pass.clone()]));
                }
                "cram-skip-then-exit" => {
                    // single-script mode: a command only RETURNS the skip code, a later one ends
                    // the shell with another code - the document is skipped all the same
                    let ret = Plan::new(Fate::Code { code: 80, expected: None, exit_shell: false });
                    let leave = Plan::new(Fate::Code { code: 127, expected: None, exit_shell: true });
                    let plans = if pos == 0 { vec![ret, pass.clone(), leave, pass.clone()] } else { vec![pass.clone(), ret, leave] };
                    let tests = plans.iter().map(|p| g.test(p, &mut sim.programs)).collect();
                    docs.push(doc("k/later-exit.t", Format::Cram, tests));
                    docs.push(mk(&mut g, &mut sim, "k/other.md", &[pass.clone(), Plan::new(Fate::WrongOutput)]));
                }
                "fail-then-die" => {
                    // no skip code anywhere: nothing may be reported as skipped
                    let die = Plan::new(Fate::Die { sig: if pos == 0 { 9 } else { 15 }, after_lines: 1, no_expectations: false });
                    docs.push(mk(&mut g, &mut sim, "k/die.md", &[Plan::new(Fate::WrongOutput), die, pass.clone(), pass.clone()]));
                }
                _ => {
                    cli.cram_compat = true;
                    let plans = if pos == 0 { vec![skip.clone(), pass.clone(), pass.clone()] } else { vec![pass.clone(), pass.clone(), skip.clone()] };
                    let mut sk = plans;
                    for p in sk.iter_mut() {
                        if let Fate::Code { exit_shell, .. } = &mut p.fate {
                            *exit_shell = false;
                        }
                    }
                    docs.push(mk(&mut g, &mut sim, "k/compat.md", &sk));
                    docs.push(mk(&mut g, &mut sim, "k/compat2.md", &[pass.clone(), Plan::new(Fate::WrongOutput)]));
                }
            }
            let mut sc = Scenario {
                lane: format!("skip-interplay/{}/pos{}", which, pos),
                tier: Tier::Cli,
                script_mode: false,
                docs,
                cli,
                sim,
                pretty: false,
                check: all_checks(),
                partner: None,
                turns: None,
            };
            fill_expectations(&mut sc, &mut g);
            out.push(sc);
        }
    }
    out
}

/// C18: outcome class x directory mode x format x document layout (+ a modelled peer)
pub fn lane_env(seed: u64) -> Vec<Scenario> {
    let mut out = vec![];
    let mut g = G::new(seed ^ 0xe17);
    for (oname, plans, faults) in outcome_plans() {
        for dirmode in ["tmp", "work", "keep"] {
            for fmt in ["md", "cram", "md-compat"] {
                for layout in ["one", "two-same-name", "three-same-name", "blank-vs-underscore", "prepend", "doc-timeout", "long-document"] {
                    let script = fmt != "md";
                    if layout == "long-document" && (fmt != "md" || dirmode != "tmp") {
                        continue;
                    }
                    if script && plans.iter().any(|p| p.cfg != TestCfg::default() || p.fate == Fate::Detached) {
                        continue;
                    }
                    if fmt == "cram" && layout == "prepend" {
                        continue;
                    }
                    let mut sim = base_sim(g.rng.next_u64());
                    sim.faults = faults.clone();
                    let (f, ext) = if fmt == "cram" { (Format::Cram, "t") } else { (Format::Md, "md") };
                    let mk_doc = |g: &mut G, sim: &mut SimScenario, path: &str, plans: &[Plan]| {
                        let tests = plans.iter().map(|p| g.test(p, &mut sim.programs)).collect();
                        doc(path, f, tests)
                    };
                    let mut docs = vec![];
                    match layout {
                        "one" => docs.push(mk_doc(&mut g, &mut sim, &format!("suite/case.{}", ext), &plans)),
                        "long-document" => {
                            // test cases beyond line 65 536 and beyond line 131 072
                            let mut d = mk_doc(&mut g, &mut sim, &format!("suite/long.{}", ext), &plans);
                            d.pad_lines = 66_000;
                            docs.push(d);
                            let mut d2 = mk_doc(&mut g, &mut sim, &format!("suite/longer.{}", ext), &[Plan::new(Fate::Pass), Plan::new(Fate::Pass)]);
                            d2.pad_lines = 131_100;
                            docs.push(d2);
                        }
                        "two-same-name" => {
                            docs.push(mk_doc(&mut g, &mut sim, &format!("x/case.{}", ext), &plans));
                            docs.push(mk_doc(&mut g, &mut sim, &format!("y/case.{}", ext), &[Plan::new(Fate::Pass), Plan::new(Fate::Pass)]));
                        }
                        "blank-vs-underscore" => {
                            // file names that become equal once whitespace is replaced
                            docs.push(mk_doc(&mut g, &mut sim, &format!("x/my_case.{}", ext), &[Plan::new(Fate::Pass), Plan::new(Fate::Pass)]));
                            docs.push(mk_doc(&mut g, &mut sim, &format!("y/my case.{}", ext), &plans));
                            docs.push(mk_doc(&mut g, &mut sim, &format!("z/my-case.{}", ext), &[Plan::new(Fate::Pass)]));
                        }
                        "three-same-name" => {
                            docs.push(mk_doc(&mut g, &mut sim, &format!("x/case.{}", ext), &[Plan::new(Fate::Pass)]));
                            docs.push(mk_doc(&mut g, &mut sim, &format!("y/case.{}", ext), &plans));
                            docs.push(mk_doc(&mut g, &mut sim, &format!("z/case.{}", ext), &[Plan::new(Fate::Pass), Plan::new(Fate::Pass)]));
                            docs.push(mk_doc(&mut g, &mut sim, &format!("z/case.{}-1.{}", ext, ext), &[Plan::new(Fate::Pass)]));
                        }
                        "prepend" => {
                            let mut main = mk_doc(&mut g, &mut sim, "p/main.md", &plans);
                            let mut pre = mk_doc(&mut g, &mut sim, "p/setup.md", &[Plan::new(Fate::Pass)]);
                            pre.main = false;
                            let mut post = mk_doc(&mut g, &mut sim, "p/teardown.md", &[Plan::new(Fate::Pass)]);
                            post.main = false;
                            main.prepend.push("setup.md".into());
                            main.append.push("teardown.md".into());
                            docs.push(pre);
                            docs.push(main);
                            docs.push(post);
                            // (a decoy of the same name in the directory scrut is started in)
                            let mut decoy = mk_doc(&mut g, &mut sim, "setup.md", &[Plan::new(Fate::Pass)]);
                            decoy.main = false;
                            docs.push(decoy);
                        }
                        _ => {
                            // the document limit expires in the second document
                            docs.push(mk_doc(&mut g, &mut sim, &format!("t/first.{}", ext), &plans));
                            let mut d = mk_doc(
                                &mut g,
                                &mut sim,
                                &format!("t/slow.{}", ext),
                                &[Plan::new(Fate::Pass), Plan::new(Fate::Slow { ns: 3600 * SEC }), Plan::new(Fate::Pass)],
                            );
                            if f == Format::Md {
                                d.total_timeout_ns = Some(2 * SEC);
                            }
                            docs.push(d);
                        }
                    }
                    let mut cli = Cli::default();
                    if layout == "doc-timeout" && f == Format::Cram {
                        cli.timeout_seconds = Some(2);
                    }
                    cli.cram_compat = fmt == "md-compat";
                    cli.work_directory = dirmode == "work";
                    cli.keep_tmp = dirmode == "keep";
                    cli.relative_paths = g.chance(50);
                    if g.chance(50) {
                        for d in docs.iter_mut().filter(|d| d.format == Format::Md) {
                            d.loose_front_matter = true;
                        }
                    }
                    // another shell that exists, named in the front-matter, on the command line, or both
                    // (the simulator does not care which one it is; scrut must start the configured one)
                    if f == Format::Md && g.chance(25) {
                        // (each document its own: what one document resolves to is not the next one's)
                        for (k, d) in docs.iter_mut().filter(|d| d.main).enumerate() {
                            d.shell = Some(["/bin/sh", "bash", "/usr/bin/bash", "sh"][(k + g.below(4) as usize) % 4].to_string());
                        }
                        if g.chance(30) {
                            cli.shell = Some((*g.pick(&["/bin/bash", "/bin/sh"])).to_string());
                        }
                    }
                    // the first document is a symbolic link to a file that lives elsewhere
                    if layout == "one" && g.chance(50) {
                        if let Some(d) = docs.iter_mut().find(|d| d.main) {
                            let name = d.path.rsplit('/').next().unwrap_or("doc").to_string();
                            d.stored_at = Some(format!("elsewhere/store/target-of-{}", name));
                            d.file_symlink = true;
                        }
                    }
                    // a second scrut instance creates (and sometimes removes) look-alike directories
                    if g.chance(50) {
                        let base = if cli.work_directory && g.chance(50) { "$WORK" } else { "$TMP" };
                        let name = format!("{}.peer{:02}", g.pick(&["execution", "temp", "case.md", "case.t"]), g.below(100));
                        sim.peer.push(PeerAction {
                            at_spawn: g.below(2) as u32,
                            action: "mkdir".into(),
                            path: format!("{}/{}/inner", base, name),
                        });
                    }
                    // what test cases leave behind in their $TMPDIR goes away with it: a file, a
                    // small tree, and (every fourth) a tree whose absolute path exceeds PATH_MAX
                    if !script {
                        let deep = g.chance(25);
                        for d in docs.iter().filter(|d| d.main) {
                            if let Some(t) = d.tests.first() {
                                if let Some(ops) = sim.programs.get_mut(&t.nonce) {
                                    ops.insert(0, Op::Touch { rel: "left-behind.txt".into() });
                                    ops.insert(1, Op::Touch { rel: "left/behind/deeper/file.txt".into() });
                                    if deep {
                                        ops.insert(2, Op::DeepTree { levels: 30, name_len: 200 });
                                    }
                                }
                            }
                        }
                    }
                    let mut sc = Scenario {
                        lane: format!("env/{}/{}/{}/{}", oname, dirmode, fmt, layout),
                        tier: Tier::Cli,
                        script_mode: false,
                        docs,
                        cli,
                        sim,
                        pretty: false,
                        check: all_checks(),
                        partner: None,
                        turns: None,
                    };
                    fill_expectations(&mut sc, &mut g);
                    out.push(sc);
                }
            }
        }
    }
    // exit paths that never reach a test: unparsable prepend document, missing path, missing shell
    for which in ["bad-prepend", "missing-path", "missing-shell", "bad-main"] {
        for dirmode in ["tmp", "work", "keep"] {
            let mut sim = base_sim(g.rng.next_u64());
            let t = g.test(&Plan::new(Fate::Pass), &mut sim.programs);
            let mut main = doc("e/main.md", Format::Md, vec![t]);
            let mut docs = vec![];
            let mut cli = Cli::default();
            cli.work_directory = dirmode == "work";
            cli.keep_tmp = dirmode == "keep";
            match which {
                "bad-prepend" => {
                    main.prepend.push("broken.md".into());
                    let mut b = doc("e/broken.md", Format::Md, vec![]);
                    b.main = false;
                    b.raw = Some("# broken\n\n```scrut\nno command here, only an expectation\n```\n".into());
                    docs.push(b);
                }
                "missing-path" => cli.missing_paths.push("e/nowhere.md".into()),
                "missing-shell" => cli.shell = Some("/nonexistent/bash".into()),
                _ => {
                    let mut b = doc("e/zbroken.md", Format::Md, vec![]);
                    b.raw = Some("# broken\n\n```scrut\nno command here, only an expectation\n```\n".into());
                    docs.push(b);
                }
            }
            docs.insert(0, main);
            let mut sc = Scenario {
                lane: format!("env/{}/{}", which, dirmode),
                tier: Tier::Cli,
                script_mode: false,
                docs,
                cli,
                sim,
                pretty: false,
                check: vec!["C18".into(), "C20".into()],
                partner: None,
                turns: None,
            };
            fill_expectations(&mut sc, &mut g);
            out.push(sc);
        }
    }
    out
}

/// C20: runs over several documents with prepend/append from front-matter and -P/-A
pub fn lane_runs(seed: u64) -> Vec<Scenario> {
    let mut out = vec![];
    let mut g = G::new(seed ^ 0x2077);
    let outcomes = outcome_plans();
    for (oname, plans, faults) in &outcomes {
        for layout in ["front-prepend-append", "cli-prepend", "cli-append", "front-and-cli-unsorted", "empty-main", "cram-then-md", "three-docs-mixed", "cram-only"] {
            let needs_md = plans.iter().any(|p| p.cfg != TestCfg::default() || p.fate == Fate::Detached);
            if needs_md && (layout == "cram-only") {
                continue;
            }
            let mut sim = base_sim(g.rng.next_u64());
            sim.faults = faults.clone();
            let long_fences = oname.len() % 3 == 0;
            let mk = |g: &mut G, sim: &mut SimScenario, path: &str, f: Format, plans: &[Plan]| {
                let tests = plans.iter().map(|p| g.test(p, &mut sim.programs)).collect();
                let mut d = doc(path, f, tests);
                d.long_closing_fence = long_fences;
                d.fence_wide_gap = !long_fences;
                d
            };
            let pass2 = [Plan::new(Fate::Pass), Plan::new(Fate::Pass)];
            let mut docs = vec![];
            let mut cli = Cli::default();
            // documents and -P/-A named by relative paths in every other outcome class
            cli.relative_paths = oname.len() % 2 == 0;
            // (the shell by its bare command name: looked up in PATH, whatever is called so in the
            // directory scrut is started in)
            if (oname.len() + layout.len()) % 4 == 1 {
                cli.shell = Some((*g.pick(&["bash", "sh"])).to_string());
            }
            cli.debug = (oname.len() + layout.len()) % 3 == 0;
            cli.verbose = (oname.len() + layout.len()) % 2 == 0;
            cli.log_level = [None, Some("debug"), None][(oname.len() + 2 * layout.len()) % 3].map(|x| x.to_string());
            match layout {
                "front-prepend-append" => {
                    let mut main = mk(&mut g, &mut sim, "r/main.md", Format::Md, plans);
                    let mut a = mk(&mut g, &mut sim, "r/pre1.md", Format::Md, &pass2);
                    let mut b = mk(&mut g, &mut sim, "r/pre2.md", Format::Md, &pass2[..1]);
                    let mut c = mk(&mut g, &mut sim, "r/post.md", Format::Md, &pass2);
                    a.main = false;
                    b.main = false;
                    c.main = false;
                    main.prepend = vec!["pre1.md".into(), "pre2.md".into()];
                    main.append = vec!["post.md".into()];
                    // decoys: files of the same names in the directory scrut is started in - paths
                    // in the front-matter are relative to the DOCUMENT, these are never run
                    let mut x = mk(&mut g, &mut sim, "pre1.md", Format::Md, &pass2[..1]);
                    let mut y = mk(&mut g, &mut sim, "post.md", Format::Md, &pass2[..1]);
                    x.main = false;
                    y.main = false;
                    docs.extend([a, b, main, c, x, y]);
                }
                "front-and-cli-unsorted" => {
                    // prepend/append lists from the front-matter AND the command line, several
                    // entries each, none of the lists in alphabetical order
                    let mut main = mk(&mut g, &mut sim, "u/main.md", Format::Md, plans);
                    main.prepend = vec!["z-init.md".into(), "a-configure.md".into()];
                    main.append = vec!["t-stop.md".into(), "c-cleanup.md".into()];
                    cli.prepend = vec!["w/y-cli-first.md".into(), "w/b-cli-second.md".into()];
                    cli.append = vec!["w/x-cli-post.md".into(), "w/d-cli-last.md".into()];
                    let mut others = vec![];
                    for p in ["u/z-init.md", "u/a-configure.md", "u/t-stop.md", "u/c-cleanup.md", "w/y-cli-first.md", "w/b-cli-second.md", "w/x-cli-post.md", "w/d-cli-last.md"] {
                        let mut d = mk(&mut g, &mut sim, p, Format::Md, &pass2[..1]);
                        d.main = false;
                        others.push(d);
                    }
                    docs.push(main);
                    docs.extend(others);
                }
                "empty-main" => {
                    // a document without test cases of its own (prose only) still runs what it
                    // prepends and appends
                    let mut main = mk(&mut g, &mut sim, "e/readme.md", Format::Md, &[]);
                    let mut a = mk(&mut g, &mut sim, "e/setup.md", Format::Md, plans);
                    let mut c = mk(&mut g, &mut sim, "shared/teardown.md", Format::Md, &pass2);
                    a.main = false;
                    c.main = false;
                    main.prepend = vec!["setup.md".into()];
                    cli.append = vec!["shared/teardown.md".into()];
                    docs.extend([main, a, c]);
                }
                "cram-then-md" => {
                    // the single-script mode of the first document must not stick to the second
                    docs.push(mk(&mut g, &mut sim, "o/a-first.t", Format::Cram, &pass2));
                    docs.push(mk(&mut g, &mut sim, "o/b-second.md", Format::Md, plans));
                    docs.push(mk(&mut g, &mut sim, "o/c-third.t", Format::Cram, &pass2[..1]));
                }
                "cli-prepend" | "cli-append" => {
                    let main = mk(&mut g, &mut sim, "r/main.md", Format::Md, plans);
                    let second = mk(&mut g, &mut sim, "r/second.md", Format::Md, &pass2);
                    let mut shared = mk(&mut g, &mut sim, "shared/common.md", Format::Md, &pass2[..1]);
                    shared.main = false;
                    if layout == "cli-prepend" {
                        cli.prepend.push("shared/common.md".into());
                    } else {
                        cli.append.push("shared/common.md".into());
                    }
                    // a -P/-A document runs with every main document: each needs its own copy of
                    // the nonce -> the oracle matches per document, so give the shared document
                    // to one main document only by running one main document
                    let _ = second;
                    docs.extend([main, shared]);
                }
                "three-docs-mixed" => {
                    let f1 = if needs_md { Format::Md } else { Format::Cram };
                    docs.push(mk(&mut g, &mut sim, "m/one.md", Format::Md, &pass2));
                    docs.push(mk(&mut g, &mut sim, if f1 == Format::Cram { "m/two.t" } else { "m/two.md" }, f1, plans));
                    docs.push(mk(&mut g, &mut sim, "m/three.t", Format::Cram, &pass2));
                }
                _ => {
                    docs.push(mk(&mut g, &mut sim, "c/one.t", Format::Cram, plans));
                    docs.push(mk(&mut g, &mut sim, "c/two.t", Format::Cram, &pass2));
                }
            }
            let mut sc = Scenario {
                lane: format!("runs/{}/{}", oname, layout),
                tier: Tier::Cli,
                script_mode: false,
                docs,
                cli,
                sim,
                pretty: false,
                check: all_checks(),
                partner: None,
                turns: None,
            };
            fill_expectations(&mut sc, &mut g);
            out.push(sc);
        }
    }
    // a document given with -P runs in front of EVERY document of the run (its test cases carry
    // one name each, so only how often they run is judged here: C20 alone)
    let mut g2 = G::new(seed ^ 0x3a17);
    for k in 0..4usize {
        let mut sim = base_sim(g2.rng.next_u64());
        let p1 = [Plan::new(Fate::Pass)];
        let p2 = [Plan::new(Fate::Pass), Plan::new(Fate::Pass)];
        let mut mk = |g: &mut G, sim: &mut SimScenario, path: &str, plans: &[Plan]| {
            let tests = plans.iter().map(|p| g.test(p, &mut sim.programs)).collect();
            doc(path, Format::Md, tests)
        };
        let mut docs = vec![mk(&mut g2, &mut sim, "q/one.md", &p2), mk(&mut g2, &mut sim, "q/two.md", &p1), mk(&mut g2, &mut sim, "q/three.md", &p2)];
        if k >= 2 {
            docs.pop();
        }
        let mut shared = mk(&mut g2, &mut sim, "shared/common.md", &p1);
        shared.main = false;
        docs.push(shared);
        let mut cli = Cli::default();
        cli.prepend.push("shared/common.md".into());
        cli.relative_paths = k % 2 == 1;
        let mut sc = Scenario {
            lane: format!("runs/all-pass/cli-prepend-several-mains/{}", k),
            tier: Tier::Cli,
            script_mode: false,
            docs,
            cli,
            sim,
            pretty: false,
            check: vec!["C20".into()],
            partner: None,
            turns: None,
        };
        fill_expectations(&mut sc, &mut g2);
        out.push(sc);
    }
    out
}

/// C20: scrut cannot do its job in ONE of several documents - the run must exit 1
pub fn lane_hard_failures(seed: u64) -> Vec<Scenario> {
    let mut out = vec![];
    let mut g = G::new(seed ^ 0x4a2d);
    for which in ["later-unparsable", "later-bad-frontmatter", "later-missing-shell", "first-missing-shell", "dangling-prepend", "dangling-append", "missing-path-last"] {
        for before in ["pass", "fail", "skip", "timeout"] {
            for cram_first in [false, true] {
                let mut sim = base_sim(g.rng.next_u64());
                let plan = match before {
                    "pass" => Plan::new(Fate::Pass),
                    "fail" => Plan::new(Fate::WrongOutput),
                    "skip" => Plan::new(Fate::Code { code: 80, expected: None, exit_shell: false }),
                    _ => {
                        if cram_first {
                            continue;
                        }
                        Plan::new(Fate::Hang).cfg(TestCfg { timeout_ns: Some(SEC), ..Default::default() })
                    }
                };
                let t1 = vec![g.test(&Plan::new(Fate::Pass), &mut sim.programs), g.test(&plan, &mut sim.programs)];
                let first = if cram_first { doc("h/first.t", Format::Cram, t1) } else { doc("h/first.md", Format::Md, t1) };
                let t2 = vec![g.test(&Plan::new(Fate::Pass), &mut sim.programs)];
                let mut second = doc("h/second.md", Format::Md, t2);
                let mut cli = Cli::default();
                let mut docs = vec![];
                let mut first = first;
                match which {
                    "later-unparsable" => {
                        second.tests.clear();
                        second.raw = Some("# broken\n\n```scrut\nonly an expectation, no command\n```\n".into());
                    }
                    "later-bad-frontmatter" => {
                        second.tests.clear();
                        second.raw = Some("---\ntotal_timeout: [not, a, duration\n---\n\n# t\n\n```scrut\n$ true\n```\n".into());
                    }
                    "later-missing-shell" => second.shell = Some("/nonexistent/dir/bash".into()),
                    "first-missing-shell" => {
                        if cram_first {
                            continue;
                        }
                        first.shell = Some("/nonexistent/dir/bash".into())
                    }
                    "dangling-prepend" => second.prepend.push("not-there.md".into()),
                    "dangling-append" => second.append.push("not-there.md".into()),
                    _ => cli.missing_paths.push("h/zz-nowhere.md".into()),
                }
                docs.push(first);
                docs.push(second);
                let mut sc = Scenario {
                    lane: format!("hard/{}/{}/{}", which, before, if cram_first { "cram" } else { "md" }),
                    tier: Tier::Cli,
                    script_mode: false,
                    docs,
                    cli,
                    sim,
                    pretty: false,
                    check: vec!["C20".into(), "C18".into()],
                    partner: None,
                    turns: None,
                };
                fill_expectations(&mut sc, &mut g);
                out.push(sc);
            }
        }
    }
    // the shell of ONE test case cannot be started - also when that test case is a detached one,
    // whose start nobody waits for: the run ends with 1, nothing is passed over in silence
    for detached in [false, true] {
        for pos in 0..3usize {
            for errno in [2, 11, 13] {
                for others in ["pass", "fail"] {
                    let mut sim = base_sim(g.rng.next_u64());
                    let mut tests = vec![];
                    for k in 0..3 {
                        let plan = if k == pos && detached {
                            Plan::new(Fate::Detached)
                        } else if k != pos && others == "fail" && k == 2 - (pos % 2) * 2 {
                            Plan::new(Fate::WrongOutput)
                        } else {
                            Plan::new(Fate::Pass)
                        };
                        tests.push(g.test(&plan, &mut sim.programs));
                    }
                    sim.faults.push(Fault::Spawn { nth: pos as u32, errno });
                    let other = doc("h/other.md", Format::Md, vec![g.test(&Plan::new(Fate::Pass), &mut sim.programs)]);
                    let mut sc = Scenario {
                        lane: format!("hard/spawn-fails/{}/pos{}/errno{}/{}", if detached { "detached" } else { "plain" }, pos, errno, others),
                        tier: Tier::Cli,
                        script_mode: false,
                        docs: vec![doc("h/start.md", Format::Md, tests), other],
                        cli: Cli::default(),
                        sim,
                        pretty: false,
                        check: vec!["C20".into(), "C18".into(), "C05".into()],
                        partner: None,
                        turns: None,
                    };
                    fill_expectations(&mut sc, &mut g);
                    out.push(sc);
                }
            }
        }
    }
    out
}

/// C20: the summary line exists only in the pretty renderer; the same scenarios (scenario + tape
/// = one exactly repeatable execution) are run once more with it
pub fn lane_summary(seed: u64, stride: usize) -> Vec<Scenario> {
    let mut v = lane_runs(seed);
    v.extend(lane_skip(seed).into_iter().step_by(7));
    v.into_iter()
        .step_by(stride.max(1))
        .map(|mut s| {
            s.lane = format!("summary-{}", s.lane);
            s.pretty = true;
            s.check = vec!["C20".into(), "C15".into()];
            s
        })
        .collect()
}

/// C18 through `scrut update`: the same outcome classes and directory modes, clean-up and
/// environment only (the command has no report and its own exit-status rules)
pub fn lane_update(seed: u64) -> Vec<Scenario> {
    lane_env(seed ^ 0x0bda7e)
        .into_iter()
        // (`update --cram-compat` on a Markdown document picks its executor differently from
        // `test`; no property speaks about it)
        .filter(|s| !s.cli.cram_compat)
        .filter(|s| !s.lane.contains("/keep/") && s.docs.iter().all(|d| d.raw.is_none()) && s.cli.missing_paths.is_empty() && s.cli.shell.is_none())
        .step_by(3)
        .map(|mut s| {
            s.lane = format!("update-{}", s.lane);
            s.cli.command = Some("update".into());
            s.check = vec!["C18".into()];
            s
        })
        .collect()
}

/// C20: the documents are given as ONE directory argument; order between documents is then
/// unspecified (read_dir), everything else must hold
pub fn lane_directory(seed: u64) -> Vec<Scenario> {
    let mut out = vec![];
    let mut g = G::new(seed ^ 0xd12);
    for (oname, plans, faults) in outcome_plans() {
        if !faults.is_empty() {
            continue; // faults are addressed by spawn order, which a directory listing does not fix
        }
        for n_docs in [1usize, 3] {
            let mut sim = base_sim(g.rng.next_u64());
            let needs_md = plans.iter().any(|p| p.cfg != TestCfg::default() || p.fate == Fate::Detached);
            let mut docs = vec![];
            for k in 0..n_docs {
                let cram = !needs_md && k % 2 == 1;
                let pl: Vec<Plan> = if k == 0 { plans.clone() } else { vec![Plan::new(Fate::Pass), Plan::new(Fate::Pass)] };
                let tests = pl.iter().map(|p| g.test(p, &mut sim.programs)).collect();
                docs.push(doc(
                    &format!("suite/doc{}.{}", k, if cram { "t" } else { "md" }),
                    if cram { Format::Cram } else { Format::Md },
                    tests,
                ));
            }
            // a document without any test case, and documents in sub-directories
            docs.push(doc("suite/prose-only.md", Format::Md, vec![]));
            let deep = vec![g.test(&Plan::new(Fate::Pass), &mut sim.programs), g.test(&Plan::new(Fate::WrongOutput), &mut sim.programs)];
            docs.push(doc("suite/sub/deeper/nested.md", Format::Md, deep));
            let deep_t = vec![g.test(&Plan::new(Fate::Pass), &mut sim.programs)];
            docs.push(doc("suite/sub/nested.cram", Format::Cram, deep_t));
            // ten levels down
            docs.push(doc("suite/l1/l2/l3/l4/l5/l6/l7/l8/l9/l10/deepest.md", Format::Md, vec![g.test(&Plan::new(Fate::Pass), &mut sim.programs), g.test(&Plan::new(Fate::WrongOutput), &mut sim.programs)]));
            // a sub-directory that is a symbolic link to a directory elsewhere
            let mut linked = doc("suite/via-link/linked.md", Format::Md, vec![g.test(&Plan::new(Fate::Pass), &mut sim.programs), g.test(&Plan::new(Fate::WrongOutput), &mut sim.programs)]);
            linked.stored_at = Some("elsewhere/real dir/linked.md".into());
            docs.push(linked);
            // files the scan must leave alone: other extensions, although they look like documents
            for other in ["suite/notes.txt", "suite/doc0.md.bak", "suite/sub/readme.mdx", "suite/sub/case.t.orig"] {
                let mut o = doc(other, if other.contains(".t.") { Format::Cram } else { Format::Md }, vec![g.test(&Plan::new(Fate::WrongOutput), &mut sim.programs)]);
                o.main = false;
                docs.push(o);
            }
            // every third: a document in the directory (or two levels down) that cannot be read -
            // a symbolic link to nowhere, a file that is not text: the run ends with 1
            let bad = match (oname.len() + n_docs) % 6 {
                0 => Some(("suite/unreadable.md", "dangling")),
                1 => Some(("suite/sub/deeper/unreadable.md", "not-utf8")),
                _ => None,
            };
            if let Some((path, how)) = bad {
                let mut b = doc(path, Format::Md, vec![]);
                b.raw = Some(String::new());
                b.unreadable = Some(how.into());
                docs.push(b);
            }
            let mut cli = Cli::default();
            cli.as_directory = true;
            let mut sc = Scenario {
                lane: format!("directory/{}/{}docs{}", oname, n_docs, bad.map(|b| format!("/{}", b.1)).unwrap_or_default()),
                tier: Tier::Cli,
                script_mode: false,
                docs,
                cli,
                sim,
                pretty: false,
                check: vec!["C20".into(), "C05".into(), "C15".into(), "C18".into()],
                partner: None,
                turns: None,
            };
            fill_expectations(&mut sc, &mut g);
            out.push(sc);
        }
    }
    out
}

/// C18 through `scrut create`: one command, every way it can end, every directory mode
pub fn lane_create(seed: u64) -> Vec<Scenario> {
    let mut out = vec![];
    let mut g = G::new(seed ^ 0xc2ea7e);
    let fates: Vec<(&str, Plan, Vec<Fault>, Option<u64>)> = vec![
        ("pass", Plan::new(Fate::Pass), vec![], None),
        ("code", Plan::new(Fate::Code { code: 3, expected: None, exit_shell: false }), vec![], None),
        ("exit", Plan::new(Fate::Code { code: 3, expected: None, exit_shell: true }), vec![], None),
        ("die", Plan::new(Fate::Die { sig: 9, after_lines: 1, no_expectations: true }), vec![], None),
        ("hang", Plan::new(Fate::Hang), vec![], Some(2)),
        ("slow-timeout", Plan::new(Fate::Slow { ns: 50 * SEC }), vec![], Some(1)),
        ("bg-hold-timeout", Plan::new(Fate::BgHold { ns: 60 * SEC }), vec![], Some(3)),
        ("spawn-failure", Plan::new(Fate::Pass), vec![Fault::Spawn { nth: 0, errno: 11 }], None),
        ("poll-eintr", Plan::new(Fate::Pass), vec![Fault::PollEintr { proc: 0, nth: 1 }], None),
        ("read-eio", Plan::new(Fate::Pass), vec![Fault::ReadErr { proc: 0, nth: 0, errno: 5 }], None),
        ("wait-echild", Plan::new(Fate::Pass), vec![Fault::Wait { proc: 0, errno: 10 }], None),
        ("skip-code", Plan::new(Fate::Code { code: 80, expected: None, exit_shell: false }), vec![], None),
    ];
    for (name, plan, faults, limit) in fates {
        for dirmode in ["tmp", "work", "keep"] {
            let mut sim = base_sim(g.rng.next_u64());
            sim.faults = faults.clone();
            let t = g.test(&plan, &mut sim.programs);
            let mut cli = Cli::default();
            cli.command = Some("create".into());
            cli.work_directory = dirmode == "work";
            cli.keep_tmp = dirmode == "keep";
            cli.timeout_seconds = limit;
            if g.chance(50) {
                sim.peer.push(PeerAction {
                    at_spawn: 0,
                    action: "mkdir".into(),
                    path: format!("{}/execution.peer{:02}/x", if cli.work_directory { "$WORK" } else { "$TMP" }, g.below(100)),
                });
            }
            out.push(Scenario {
                lane: format!("create/{}/{}", name, dirmode),
                tier: Tier::Cli,
                script_mode: false,
                docs: vec![doc("unused.md", Format::Md, vec![t])],
                cli,
                sim,
                pretty: false,
                check: vec!["C18".into()],
                partner: None,
                turns: None,
            });
        }
    }
    out
}

/// C14: per-test timeouts in single-script mode (`--cram-compat` on a Markdown document) and
/// front-matter limits under `--cram-compat`
pub fn lane_script_limits(seed: u64) -> Vec<Scenario> {
    let mut out = vec![];
    let mut g = G::new(seed ^ 0x5c21);
    for which in ["inline-timeout-slow", "inline-timeout-fast", "defaults-timeout-slow", "front-limit-slow", "front-limit-hang", "front-zero-long", "cli-zero-over-front"] {
        for pos in 0..3usize {
            let mut sim = base_sim(g.rng.next_u64());
            let mut tests = vec![];
            for k in 0..3 {
                let plan = if k == pos {
                    match which {
                        "inline-timeout-slow" => Plan::new(Fate::Slow { ns: 20 * SEC }).cfg(TestCfg { timeout_ns: Some(SEC), ..Default::default() }),
                        "inline-timeout-fast" => Plan::new(Fate::Slow { ns: 10 * MS }).cfg(TestCfg { timeout_ns: Some(5 * SEC), ..Default::default() }),
                        "defaults-timeout-slow" => Plan::new(Fate::Slow { ns: 20 * SEC }),
                        "front-limit-hang" => Plan::new(Fate::Hang),
                        "front-zero-long" | "cli-zero-over-front" => Plan::new(Fate::Slow { ns: 5000 * SEC }),
                        _ => Plan::new(Fate::Slow { ns: 30 * SEC }),
                    }
                } else {
                    Plan::new(Fate::Slow { ns: 300 * MS })
                };
                tests.push(g.test(&plan, &mut sim.programs));
            }
            let mut d = doc("compat/limits.md", Format::Md, tests);
            let mut cli = Cli::default();
            cli.cram_compat = true;
            match which {
                "defaults-timeout-slow" => d.defaults.timeout_ns = Some(2 * SEC),
                "front-limit-slow" | "front-limit-hang" => d.total_timeout_ns = Some(3500 * MS),
                "front-zero-long" => d.total_timeout_ns = Some(0),
                "cli-zero-over-front" => {
                    d.total_timeout_ns = Some(2 * SEC);
                    cli.timeout_seconds = Some(0);
                }
                _ => {}
            }
            let mut sc = Scenario {
                lane: format!("script-limits/{}/pos{}", which, pos),
                tier: Tier::Cli,
                script_mode: false,
                docs: vec![d],
                cli,
                sim,
                pretty: false,
                check: vec!["C14".into(), "C20".into(), "C05".into()],
                partner: None,
                turns: None,
            };
            fill_expectations(&mut sc, &mut g);
            out.push(sc);
        }
    }
    out
}

/// C05: which stream is judged - the setting given in the front-matter defaults, inline, and
/// on the command line, in every combination, for a command that writes to both streams
pub fn lane_stream_layers(seed: u64) -> Vec<Scenario> {
    let mut out = vec![];
    let mut g = G::new(seed ^ 0x57e4);
    let opts = [None, Some(Stream::Stdout), Some(Stream::Stderr), Some(Stream::Combined)];
    for tier in [Tier::Lib, Tier::Cli] {
        for dflt in opts {
            for inline in opts {
                for flag in [None, Some(true), Some(false)] {
                    for matching in [true, false] {
                        let mut sim = base_sim(g.rng.next_u64());
                        let mut p = if matching { Plan::new(Fate::Pass) } else { Plan::new(Fate::WrongOutput) };
                        p.cfg.output_stream = inline;
                        let t = g.test(&p, &mut sim.programs);
                        let t2 = g.test(&Plan::new(Fate::Pass), &mut sim.programs);
                        // a test case without expectations that writes to ONE descriptor only:
                        // it passes iff that is not the one its configuration looks at
                        let mut t3 = g.test(&Plan::new(Fate::Pass), &mut sim.programs);
                        let fd = if matching { 2 } else { 1 };
                        sim.programs.insert(
                            t3.nonce.clone(),
                            // (the tab makes the line unfit as a generated expectation: the test
                            // case gets none, and passes iff the stream it looks at is empty)
                            vec![Op::Out { fd, data: format!("only\t{}\n", &t3.nonce[..6]).as_str().into() }, Op::Status { code: 0 }],
                        );
                        t3.cfg.output_stream = inline;
                        let mut d = doc("layers.md", Format::Md, vec![t, t2, t3]);
                        d.defaults.output_stream = dflt;
                        let mut cli = Cli::default();
                        cli.combine_output = flag;
                        let mut sc = Scenario {
                            lane: format!("stream-layers/{:?}/d{:?}/i{:?}/f{:?}/{}", tier, dflt, inline, flag, matching),
                            tier,
                            script_mode: false,
                            docs: vec![d],
                            cli,
                            sim,
                            pretty: false,
                            check: vec!["C05".into(), "C13".into(), "C20".into()],
                            partner: None,
                            turns: None,
                        };
                        fill_expectations(&mut sc, &mut g);
                        out.push(sc);
                    }
                }
            }
        }
    }
    out
}

/// C20: single-script documents with one test case and with two-digit divider indices; a Cram
/// document prepended / appended to a Markdown one
pub fn lane_cram_sizes(seed: u64) -> Vec<Scenario> {
    let mut out = vec![];
    let mut g = G::new(seed ^ 0xc2a3);
    // (three-digit indices too: more than a hundred test cases in one Cram document)
    for (n, compact) in [(1usize, false), (2, false), (9, false), (10, false), (11, false), (13, false), (2, true), (4, true), (10, true), (13, true), (101, false), (120, false), (102, true)] {
        for special in ["all-pass", "fail-last", "fail-first", "code-mid", "code-late", "skip-last", "exit-mid", "marker-like", "marker-like-prefix"] {
            let mut sim = base_sim(g.rng.next_u64());
            let mut tests = vec![];
            for k in 0..n {
                let plan = match special {
                    // three-digit exit codes behind two-digit indices
                    "code-late" if k + 1 == n => Plan::new(Fate::Code { code: 255, expected: Some(255), exit_shell: false }),
                    "code-late" if k + 2 == n => Plan::new(Fate::Code { code: 127, expected: None, exit_shell: false }),
                    "fail-last" if k + 1 == n => Plan::new(Fate::WrongOutput),
                    "fail-first" if k == 0 => Plan::new(Fate::WrongOutput),
                    "code-mid" if k == n / 2 => Plan::new(Fate::Code { code: 100 + k as i32, expected: Some(100 + k as i32), exit_shell: false }),
                    "skip-last" if k + 1 == n => Plan::new(Fate::Code { code: 80, expected: None, exit_shell: false }),
                    "exit-mid" if k == n / 2 && n > 1 => Plan::new(Fate::Code { code: 4, expected: Some(4), exit_shell: true }),
                    _ => {
                        let mut p = Plan::new(Fate::Pass);
                        p.lines = k % 3;
                        p
                    }
                };
                let t = g.test(&plan, &mut sim.programs);
                if special.starts_with("marker-like") && k == n / 2 {
                    // the last line of the output looks like one of scrut's dividers and has no
                    // line break: scrut's own divider follows on the same line
                    let text = if special == "marker-like" { "see ~~~~~~~~EXECDIVIDER::x::0::0" } else { "marker ~~~~~~~~EXECDIVIDER::" };
                    sim.programs.insert(t.nonce.clone(), vec![Op::Out { fd: 1, data: text.into() }, Op::Status { code: if k % 2 == 0 { 0 } else { 5 } }]);
                }
                tests.push(t);
            }
            let mut d = doc(&format!("sizes/n{}.t", n), Format::Cram, tests);
            // every other one as ONE block: a title, then `$` lines only (the last command of the
            // block often has no output at all)
            d.compact = compact;
            let other = doc("sizes/other.md", Format::Md, vec![g.test(&Plan::new(Fate::Pass), &mut sim.programs)]);
            let mut sc = Scenario {
                lane: format!("cram-sizes/{}/{}{}", n, special, if compact { "/one-block" } else { "" }),
                tier: Tier::Cli,
                script_mode: false,
                docs: vec![d, other],
                cli: Cli::default(),
                sim,
                pretty: false,
                check: all_checks(),
                partner: None,
                turns: None,
            };
            fill_expectations(&mut sc, &mut g);
            out.push(sc);
        }
    }
    // a Cram document as shared set-up / tear-down of a Markdown document
    for which in ["prepend", "append", "both"] {
        for fail in [false, true] {
            let mut sim = base_sim(g.rng.next_u64());
            let mk = |g: &mut G, sim: &mut SimScenario, path: &str, f: Format, plans: &[Plan]| {
                let tests = plans.iter().map(|p| g.test(p, &mut sim.programs)).collect();
                doc(path, f, tests)
            };
            let pass2 = [Plan::new(Fate::Pass), Plan::new(Fate::Pass)];
            let mut shared = mk(&mut g, &mut sim, "x/shared.t", Format::Cram, &pass2);
            shared.main = false;
            let mut shared2 = mk(&mut g, &mut sim, "x/shared2.t", Format::Cram, &pass2[..1]);
            shared2.main = false;
            let plans = if fail { vec![Plan::new(Fate::Pass), Plan::new(Fate::WrongOutput)] } else { pass2.to_vec() };
            let mut main = mk(&mut g, &mut sim, "x/main.md", Format::Md, &plans);
            let mut docs = vec![];
            match which {
                "prepend" => {
                    main.prepend.push("shared.t".into());
                    docs.push(shared);
                }
                "append" => {
                    main.append.push("shared.t".into());
                    docs.push(shared);
                }
                _ => {
                    main.prepend.push("shared.t".into());
                    main.append.push("shared2.t".into());
                    docs.push(shared);
                    docs.push(shared2);
                }
            }
            docs.push(main);
            let mut sc = Scenario {
                lane: format!("cram-sizes/cross-format-{}/{}", which, fail),
                tier: Tier::Cli,
                script_mode: false,
                docs,
                cli: Cli::default(),
                sim,
                pretty: false,
                check: vec!["C20".into(), "C05".into(), "C15".into(), "C13".into()],
                partner: None,
                turns: None,
            };
            fill_expectations(&mut sc, &mut g);
            out.push(sc);
        }
    }
    out
}

/// C18 / C20: scrut cannot create one of its directories or temporary files (disk full, no
/// permission) - at every hooked site, for the first and for a later document
pub fn lane_fs_faults(seed: u64) -> Vec<Scenario> {
    let mut out = vec![];
    let mut g = G::new(seed ^ 0xf5fa);
    let sites = [
        ("env:work", "tmp"),
        ("env:tmp-in-work", "tmp"),
        ("env:document-dir", "tmp"),
        ("env:temp-in-work", "work"),
        ("env:kept-work", "keep"),
        ("env:kept-temp", "keep"),
        ("env:document-dir", "keep"),
        ("exec:state-dir", "tmp"),
        ("exec:state-dir", "work"),
        ("exec:detached-stdin", "tmp"),
    ];
    for (site, dirmode) in sites {
        for nth in [0u32, 1] {
            for errno in [28i32, 13] {
                for fmt in ["md", "cram"] {
                    if fmt == "cram" && site.starts_with("exec:") {
                        continue;
                    }
                    let mut sim = base_sim(g.rng.next_u64());
                    sim.faults.push(Fault::Fs { site: site.to_string(), nth, errno });
                    let (f, ext) = if fmt == "cram" { (Format::Cram, "t") } else { (Format::Md, "md") };
                    let mut docs = vec![];
                    for k in 0..3 {
                        let mut plans = vec![Plan::new(Fate::Pass), if k == 0 { Plan::new(Fate::WrongOutput) } else { Plan::new(Fate::Pass) }];
                        if site == "exec:detached-stdin" && f == Format::Md {
                            plans.insert(1, Plan::new(Fate::Detached));
                        }
                        let tests = plans.iter().map(|p| g.test(p, &mut sim.programs)).collect();
                        docs.push(doc(&format!("fs/doc{}.{}", k, ext), f, tests));
                    }
                    let mut cli = Cli::default();
                    cli.work_directory = dirmode == "work";
                    cli.keep_tmp = dirmode == "keep";
                    let mut sc = Scenario {
                        lane: format!("fs-faults/{}/{}/nth{}/e{}/{}", site, dirmode, nth, errno, fmt),
                        tier: Tier::Cli,
                        script_mode: false,
                        docs,
                        cli,
                        sim,
                        pretty: false,
                        check: vec!["C18".into(), "C20".into(), "C05".into()],
                        partner: None,
                        turns: None,
                    };
                    fill_expectations(&mut sc, &mut g);
                    out.push(sc);
                }
            }
        }
    }
    out
}

// ------------------------------------------------------------------ recorded bytes through the real binary

/// payloads for the report lanes: 0 = CR LF on both descriptors, 1 = SGR sequences and a wanted
/// exit code, 2 = plain
fn report_payload(t: &mut Test, programs: &mut std::collections::BTreeMap<String, Vec<Op>>, which: usize) {
    let tag = t.nonce[..6].to_string();
    let out = |fd: u8, s: String| Op::Out { fd, data: s.as_str().into() };
    let ops = match which % 3 {
        0 => vec![
            out(1, format!("o{}-a\r\n", tag)),
            out(2, format!("e{}-a\r\n", tag)),
            out(1, format!("o{}-b\n", tag)),
            out(2, format!("e{}-b\n", tag)),
            Op::Status { code: 0 },
        ],
        1 => {
            t.expected_code = Some(5);
            vec![
                out(1, format!("\x1b[31mo{}-red\x1b[0m\n", tag)),
                out(2, format!("e{}-x\r\n", tag)),
                out(1, format!("o{}-y\r\n", tag)),
                Op::Status { code: 5 },
            ]
        }
        _ => vec![out(1, format!("o{}-plain\n", tag)), out(2, format!("e{}-plain\n", tag)), Op::Status { code: 0 }],
    };
    programs.insert(t.nonce.clone(), ops);
}

/// C13 through the real binary. The JSON report carries what scrut recorded (stdout, stderr, exit
/// code) for FAILED test cases only, so every test case here fails on its output; the recorded
/// bytes are then compared with what the command wrote under the effective configuration - with
/// the stream selection and the CR LF translation given in every layer (front-matter defaults,
/// inline, command line, `--cram-compat`).
pub fn lane_cli_report_bytes(seed: u64) -> Vec<Scenario> {
    let mut out = vec![];
    let mut g = G::new(seed ^ 0x4e90);
    #[derive(Clone, Copy, Debug, PartialEq)]
    enum L {
        None,
        Defaults,
        Inline,
        Flag,
        /// the command line says the opposite of the front-matter defaults
        FlagOverDefaults,
    }
    let mk = |g: &mut G, sim: &mut SimScenario, path: &str, f: Format, n: usize| {
        let mut tests = vec![];
        for k in 0..n {
            let mut t = g.test(&Plan::new(Fate::WrongOutput), &mut sim.programs);
            report_payload(&mut t, &mut sim.programs, k);
            tests.push(t);
        }
        doc(path, f, tests)
    };
    for mode in ["md", "md-compat", "cram"] {
        let stream_layers: Vec<(L, Stream)> = match mode {
            "md" => vec![
                (L::None, Stream::Stdout),
                (L::Defaults, Stream::Stderr),
                (L::Defaults, Stream::Combined),
                (L::Inline, Stream::Stderr),
                (L::Inline, Stream::Combined),
                (L::Flag, Stream::Combined),
                (L::FlagOverDefaults, Stream::Stdout),
            ],
            "md-compat" => vec![(L::None, Stream::Combined), (L::Defaults, Stream::Stdout), (L::Defaults, Stream::Stderr), (L::Flag, Stream::Stdout)],
            _ => vec![(L::None, Stream::Combined), (L::Flag, Stream::Stdout)],
        };
        let crlf_layers: Vec<(L, bool)> = match mode {
            "md" => vec![(L::None, false), (L::Defaults, true), (L::Inline, true), (L::Flag, true), (L::FlagOverDefaults, false)],
            "md-compat" => vec![(L::None, true), (L::Defaults, false), (L::Flag, false)],
            _ => vec![(L::None, true), (L::Flag, false)],
        };
        for (sl, sv) in &stream_layers {
            for (cl, cv) in &crlf_layers {
                let mut sim = base_sim(g.rng.next_u64());
                let (f, path) = if mode == "cram" { (Format::Cram, "rep/doc.t") } else { (Format::Md, "rep/doc.md") };
                let mut d = mk(&mut g, &mut sim, path, f, 3);
                let mut cli = Cli::default();
                cli.cram_compat = mode == "md-compat";
                match sl {
                    L::None => {}
                    L::Defaults => d.defaults.output_stream = Some(*sv),
                    L::Inline => {
                        for t in d.tests.iter_mut() {
                            t.cfg.output_stream = Some(*sv)
                        }
                    }
                    L::Flag => cli.combine_output = Some(*sv == Stream::Combined),
                    L::FlagOverDefaults => {
                        d.defaults.output_stream = Some(if *sv == Stream::Combined { Stream::Stdout } else { Stream::Combined });
                        cli.combine_output = Some(*sv == Stream::Combined);
                    }
                }
                match cl {
                    L::None => {}
                    L::Defaults => d.defaults.keep_crlf = Some(*cv),
                    L::Inline => {
                        for t in d.tests.iter_mut() {
                            t.cfg.keep_crlf = Some(*cv)
                        }
                    }
                    L::Flag => cli.keep_crlf = Some(*cv),
                    L::FlagOverDefaults => {
                        d.defaults.keep_crlf = Some(!*cv);
                        cli.keep_crlf = Some(*cv);
                    }
                }
                let mut sc = Scenario {
                    lane: format!("report-bytes/{}/stream-{:?}-{:?}/crlf-{:?}-{}", mode, sl, sv, cl, cv),
                    tier: Tier::Cli,
                    script_mode: false,
                    docs: vec![d],
                    cli,
                    sim,
                    pretty: false,
                    check: vec!["C05".into(), "C13".into(), "C20".into()],
                    partner: None,
                    turns: None,
                };
                fill_expectations(&mut sc, &mut g);
                out.push(sc);
            }
        }
    }
    // single-script mode has ONE configuration: a later test case with its own stream / CR LF
    // setting must not silently run under the first one's (refusing the document is fine)
    for which in ["stream-stdout", "stream-stderr", "crlf-false"] {
        for at in [1usize, 2] {
            let mut sim = base_sim(g.rng.next_u64());
            let mut d = mk(&mut g, &mut sim, "rep/mixed.md", Format::Md, 3);
            match which {
                "stream-stdout" => d.tests[at].cfg.output_stream = Some(Stream::Stdout),
                "stream-stderr" => d.tests[at].cfg.output_stream = Some(Stream::Stderr),
                _ => d.tests[at].cfg.keep_crlf = Some(false),
            }
            let mut sc = Scenario {
                lane: format!("report-bytes/md-compat-mixed/{}/at{}", which, at),
                tier: Tier::Cli,
                script_mode: false,
                docs: vec![d],
                cli: Cli { cram_compat: true, ..Default::default() },
                sim,
                pretty: false,
                check: vec!["C05".into(), "C13".into(), "C20".into()],
                partner: None,
                turns: None,
            };
            fill_expectations(&mut sc, &mut g);
            out.push(sc);
        }
    }
    // a Cram document in front of a Markdown one: the Markdown one still runs per process, with
    // its per-test settings
    for what in ["strip-ansi", "keep-crlf", "stderr"] {
        let mut sim = base_sim(g.rng.next_u64());
        let first = mk(&mut g, &mut sim, "ord/a-first.t", Format::Cram, 2);
        let mut second = mk(&mut g, &mut sim, "ord/b-second.md", Format::Md, 3);
        for t in second.tests.iter_mut() {
            match what {
                "strip-ansi" => t.cfg.strip_ansi = Some(true),
                "keep-crlf" => t.cfg.keep_crlf = Some(true),
                _ => t.cfg.output_stream = Some(Stream::Stderr),
            }
        }
        let third = mk(&mut g, &mut sim, "ord/c-third.cram", Format::Cram, 1);
        let mut sc = Scenario {
            lane: format!("report-bytes/cram-then-md/{}", what),
            tier: Tier::Cli,
            script_mode: false,
            docs: vec![first, second, third],
            cli: Cli::default(),
            sim,
            pretty: false,
            check: vec!["C05".into(), "C13".into(), "C20".into()],
            partner: None,
            turns: None,
        };
        fill_expectations(&mut sc, &mut g);
        out.push(sc);
    }
    // defaults of the executing document and test cases that come from prepend / append
    for what in ["keep-crlf", "strip-ansi", "both", "none"] {
        for via in ["front", "cli"] {
            let mut sim = base_sim(g.rng.next_u64());
            let mut main = mk(&mut g, &mut sim, "inc/main.md", Format::Md, 2);
            let mut pre = mk(&mut g, &mut sim, "inc/pre.md", Format::Md, 2);
            let mut post = mk(&mut g, &mut sim, "inc/post.md", Format::Md, 2);
            pre.main = false;
            post.main = false;
            if what == "keep-crlf" || what == "both" {
                main.defaults.keep_crlf = Some(true);
            }
            if what == "strip-ansi" || what == "both" {
                main.defaults.strip_ansi = Some(true);
            }
            let mut cli = Cli::default();
            if via == "front" {
                main.prepend.push("pre.md".into());
                main.append.push("post.md".into());
            } else {
                cli.prepend.push("inc/pre.md".into());
                cli.append.push("inc/post.md".into());
                cli.relative_paths = true;
            }
            let mut sc = Scenario {
                lane: format!("report-bytes/included/{}/{}", what, via),
                tier: Tier::Cli,
                script_mode: false,
                docs: vec![main, pre, post],
                cli,
                sim,
                pretty: false,
                check: vec!["C05".into(), "C13".into(), "C20".into()],
                partner: None,
                turns: None,
            };
            fill_expectations(&mut sc, &mut g);
            out.push(sc);
        }
    }
    out
}

/// C05 / C13 / C20: a detached test case in front of ordinary ones - outputs and test cases must
/// still be paired one to one, however the document ends
pub fn lane_pairing(seed: u64) -> Vec<Scenario> {
    let mut out = vec![];
    let mut g = G::new(seed ^ 0x9a17);
    let to = |ns: u64| TestCfg { timeout_ns: Some(ns), ..Default::default() };
    for ending in ["plain", "timeout", "doc-timeout", "die", "skip", "wrong-code"] {
        for detached_at in [0usize, 1, 2] {
            for payloads in [false, true] {
                let mut sim = base_sim(g.rng.next_u64());
                let mut plans = vec![Plan::new(Fate::Pass), Plan::new(Fate::WrongOutput), Plan::new(Fate::Pass), Plan::new(Fate::WrongOutput)];
                plans.insert(detached_at, Plan::new(Fate::Detached));
                match ending {
                    "timeout" => plans.push(Plan::new(Fate::Hang).cfg(to(2 * SEC))),
                    "doc-timeout" => plans.push(Plan::new(Fate::Hang)),
                    "die" => plans.push(Plan::new(Fate::Die { sig: 9, after_lines: 1, no_expectations: false })),
                    "skip" => plans.push(Plan::new(Fate::Code { code: 80, expected: None, exit_shell: false })),
                    "wrong-code" => plans.push(Plan::new(Fate::Code { code: 4, expected: Some(2), exit_shell: true })),
                    _ => {}
                }
                plans.push(Plan::new(Fate::Pass));
                let mut tests = vec![];
                for (k, p) in plans.iter().enumerate() {
                    let mut t = g.test(p, &mut sim.programs);
                    if payloads && p.fate == Fate::WrongOutput {
                        report_payload(&mut t, &mut sim.programs, k);
                    }
                    tests.push(t);
                }
                let mut d = doc("pair/doc.md", Format::Md, tests);
                if ending == "doc-timeout" {
                    d.total_timeout_ns = Some(5 * SEC);
                }
                let mut sc = Scenario {
                    lane: format!("pairing/{}/detached-at-{}/{}", ending, detached_at, if payloads { "payloads" } else { "lines" }),
                    tier: Tier::Cli,
                    script_mode: false,
                    docs: vec![d],
                    cli: Cli::default(),
                    sim,
                    pretty: false,
                    check: all_checks(),
                    partner: None,
                    turns: None,
                };
                fill_expectations(&mut sc, &mut g);
                out.push(sc);
            }
        }
    }
    out
}

/// C14: a per-test limit given in the executing document's `defaults` also bounds the test
/// cases that come from prepended / appended documents ("as if they were part of this document")
pub fn lane_included_limits(seed: u64) -> Vec<Scenario> {
    let mut out = vec![];
    let mut g = G::new(seed ^ 0x1c1d);
    for via in ["front", "cli"] {
        for place in ["prepend", "append"] {
            for fate in ["slow", "hang", "fast"] {
                for own_defaults in [false, true] {
                    let mut sim = base_sim(g.rng.next_u64());
                    let slow = match fate {
                        "slow" => Plan::new(Fate::Slow { ns: 10 * SEC }),
                        "hang" => Plan::new(Fate::Hang),
                        _ => Plan::new(Fate::Slow { ns: 500 * MS }),
                    };
                    let mk = |g: &mut G, sim: &mut SimScenario, path: &str, plans: &[Plan]| {
                        let tests = plans.iter().map(|p| g.test(p, &mut sim.programs)).collect();
                        doc(path, Format::Md, tests)
                    };
                    let mut main = mk(&mut g, &mut sim, "lim/main.md", &[Plan::new(Fate::Slow { ns: 300 * MS }), Plan::new(Fate::Pass)]);
                    main.defaults.timeout_ns = Some(2 * SEC);
                    let mut inc = mk(&mut g, &mut sim, "lim/shared.md", &[Plan::new(Fate::Pass), slow, Plan::new(Fate::Pass)]);
                    inc.main = false;
                    if own_defaults {
                        // the included document's own defaults are read by the parser and win
                        inc.defaults.timeout_ns = Some(4 * SEC);
                    }
                    let mut cli = Cli::default();
                    match (via, place) {
                        ("front", "prepend") => main.prepend.push("shared.md".into()),
                        ("front", _) => main.append.push("shared.md".into()),
                        (_, "prepend") => cli.prepend.push("lim/shared.md".into()),
                        _ => cli.append.push("lim/shared.md".into()),
                    }
                    cli.relative_paths = via == "cli" && place == "append";
                    let mut sc = Scenario {
                        lane: format!("included-limits/{}/{}/{}/{}", via, place, fate, if own_defaults { "own-defaults" } else { "plain" }),
                        tier: Tier::Cli,
                        script_mode: false,
                        docs: vec![main, inc],
                        cli,
                        sim,
                        pretty: false,
                        check: vec!["C14".into(), "C20".into(), "C05".into()],
                        partner: None,
                        turns: None,
                    };
                    fill_expectations(&mut sc, &mut g);
                    out.push(sc);
                }
            }
        }
    }
    out
}

/// C18: scrut's own stdout / stderr are cut off in the middle of a run (`scrut test ... | head`):
/// however scrut ends then, it must not leave its directories behind
pub fn lane_closed_output(seed: u64) -> Vec<Scenario> {
    lane_env(seed ^ 0xc105ed)
        .into_iter()
        .filter(|s| !s.lane.contains("/keep/") && s.docs.iter().all(|d| d.raw.is_none()) && s.cli.missing_paths.is_empty() && s.cli.shell.is_none())
        .step_by(5)
        .enumerate()
        .map(|(i, mut s)| {
            s.lane = format!("closed-output-{}", s.lane);
            s.sim.faults.push(Fault::OutputClosed { nth: (i % 3) as u32, which: (i / 3 % 3) as u8 });
            s.cli.debug = i % 2 == 0;
            // (no report can be expected; only the directories are looked at)
            s.pretty = true;
            s.check = vec!["C18".into()];
            s
        })
        .collect()
}

/// C14: a command that writes without pause (`yes`): there is always something to read, and a
/// limit must cut it off all the same
pub fn lane_flood(seed: u64) -> Vec<Scenario> {
    let mut out = vec![];
    let mut g = G::new(seed ^ 0xf100d);
    // many megabytes at a leisurely pace, well inside the limit: the rounds in which scrut reads
    // must not eat into the time that is left
    for tier in [Tier::Lib, Tier::Cli] {
        for limit in ["test", "document"] {
            let mut sim = base_sim(g.rng.next_u64());
            sim.swarm.spawn_latency_max_ns = 1;
            let mut tests = vec![];
            for k in 0..3 {
                let mut t = g.test(&Plan::new(Fate::Pass), &mut sim.programs);
                if k == 1 {
                    let unit: Vec<u8> = format!("p{}\n", &t.nonce[..6]).repeat(128).into_bytes();
                    let mut ops = vec![];
                    for _ in 0..8 {
                        ops.push(Op::OutRepeat { fd: 1, unit: Bytes(unit.clone()), times: 1200 });
                        ops.push(Op::Sleep { ns: 400 * MS });
                    }
                    ops.push(Op::Status { code: 0 });
                    sim.programs.insert(t.nonce.clone(), ops);
                    t.expectations = vec![];
                    t.expect_match = false;
                    if limit == "test" {
                        t.cfg.timeout_ns = Some(6 * SEC);
                    }
                }
                tests.push(t);
            }
            let mut d = doc("paced.md", Format::Md, tests);
            if limit == "document" {
                d.total_timeout_ns = Some(8 * SEC);
            }
            let mut sc = Scenario {
                lane: format!("flood/{:?}/paced/{}-limit", tier, limit),
                tier,
                script_mode: false,
                docs: vec![d],
                cli: Cli::default(),
                sim,
                pretty: false,
                check: vec!["C14".into(), "C13".into()],
                partner: None,
                turns: None,
            };
            fill_expectations(&mut sc, &mut g);
            out.push(sc);
        }
    }
    // more than one read round (1 MiB) arrives late, then silence: the limit counts from the
    // start of the command, not from the last round that was read
    // a read round (1 MiB) is filled by BOTH streams together - neither alone reaches the size
    // of a round -, then a pause, then a little more: what comes after the round belongs to
    // the output as well
    for tier in [Tier::Lib, Tier::Cli] {
        for (err_kib, out_kib, tail_fd) in [(976u64, 48u64, 1u8), (600, 600, 1), (48, 976, 2), (512, 512, 2), (1000, 1000, 1)] {
            let mut sim = base_sim(g.rng.next_u64());
            sim.swarm.spawn_latency_max_ns = 1;
            let mut tests = vec![];
            for k in 0..3 {
                let mut t = g.test(&Plan::new(Fate::Pass), &mut sim.programs);
                if k == 1 {
                    let unit_o: Vec<u8> = format!("o{}\n", &t.nonce[..6]).repeat(128).into_bytes();
                    let unit_e: Vec<u8> = format!("e{}\n", &t.nonce[..6]).repeat(128).into_bytes();
                    sim.programs.insert(
                        t.nonce.clone(),
                        vec![
                            Op::OutRepeat { fd: 2, unit: Bytes(unit_e), times: err_kib },
                            Op::OutRepeat { fd: 1, unit: Bytes(unit_o), times: out_kib },
                            Op::Sleep { ns: 2 * SEC },
                            Op::Out { fd: tail_fd, data: Bytes(format!("tail-{}\n", &t.nonce[..6]).into_bytes()) },
                            Op::Sleep { ns: SEC },
                            Op::Status { code: 0 },
                        ],
                    );
                    // the stream that is judged is the small one, where there is one: its
                    // expectations are written out, the line after the pause included
                    if err_kib > 100 && out_kib > 100 {
                        t.expectations = vec![];
                        t.expect_match = false;
                    } else if out_kib > 100 {
                        t.cfg.output_stream = Some(Stream::Stderr);
                    }
                }
                tests.push(t);
            }
            let d = doc("both.md", Format::Md, tests);
            let mut sc = Scenario {
                lane: format!("flood/{:?}/round-filled-by-both/{}KiB-err-{}KiB-out/tail-fd{}", tier, err_kib, out_kib, tail_fd),
                tier,
                script_mode: false,
                docs: vec![d],
                cli: Cli::default(),
                sim,
                pretty: false,
                check: vec!["C05".into(), "C13".into(), "C14".into(), "C20".into()],
                partner: None,
                turns: None,
            };
            fill_expectations(&mut sc, &mut g);
            out.push(sc);
        }
    }
    for tier in [Tier::Lib, Tier::Cli] {
        for limit in ["test", "document"] {
            for (burst_at, kib) in [(4 * SEC, 1200u64), (4 * SEC, 500), (5900 * MS, 2200), (100 * MS, 1025)] {
                let mut sim = base_sim(g.rng.next_u64());
                sim.swarm.spawn_latency_max_ns = 1;
                let mut tests = vec![];
                for k in 0..3 {
                    let mut t = g.test(&Plan::new(Fate::Pass), &mut sim.programs);
                    if k == 1 {
                        let unit: Vec<u8> = format!("b{}\n", &t.nonce[..6]).repeat(128).into_bytes();
                        sim.programs.insert(
                            t.nonce.clone(),
                            vec![
                                Op::Sleep { ns: burst_at },
                                Op::OutRepeat { fd: 1, unit: Bytes(unit), times: kib },
                                Op::Sleep { ns: 4 * SEC },
                                Op::Status { code: 0 },
                            ],
                        );
                        t.expectations = vec![];
                        t.expect_match = false;
                        if limit == "test" {
                            t.cfg.timeout_ns = Some(6 * SEC);
                        }
                    }
                    tests.push(t);
                }
                let mut d = doc("burst.md", Format::Md, tests);
                if limit == "document" {
                    d.total_timeout_ns = Some(6 * SEC);
                }
                let mut sc = Scenario {
                    lane: format!("flood/{:?}/burst-then-quiet/{}-limit/{}ms-{}KiB", tier, limit, burst_at / MS, kib),
                    tier,
                    script_mode: false,
                    docs: vec![d],
                    cli: Cli::default(),
                    sim,
                    pretty: false,
                    check: vec!["C14".into(), "C13".into()],
                    partner: None,
                    turns: None,
                };
                fill_expectations(&mut sc, &mut g);
                out.push(sc);
            }
        }
    }
    for tier in [Tier::Lib, Tier::Cli] {
        for limit in ["test", "document"] {
            for fd in [1u8, 2] {
                for pos in [0usize, 1] {
                    let mut sim = base_sim(g.rng.next_u64());
                    // small pipe and a slow parent: the flood below keeps scrut reading for
                    // about 2 s of virtual time, four times the limit
                    sim.swarm.pipe_capacity = 4096;
                    sim.swarm.syscall_cost_ns = 200_000;
                    sim.swarm.spawn_latency_max_ns = 1;
                    let mut tests = vec![];
                    for k in 0..3 {
                        let mut t = g.test(&Plan::new(Fate::Pass), &mut sim.programs);
                        if k == pos {
                            let unit: Vec<u8> = format!("y{}\n", &t.nonce[..6]).repeat(64).into_bytes();
                            sim.programs.insert(
                                t.nonce.clone(),
                                vec![Op::OutRepeat { fd, unit: Bytes(unit), times: 40_000 }, Op::Status { code: 0 }],
                            );
                            t.expectations = vec![];
                            t.expect_match = false;
                            if limit == "test" {
                                t.cfg.timeout_ns = Some(500 * MS);
                            }
                        }
                        tests.push(t);
                    }
                    let mut d = doc("flood.md", Format::Md, tests);
                    if limit == "document" {
                        d.total_timeout_ns = Some(500 * MS);
                    }
                    let mut sc = Scenario {
                        lane: format!("flood/{:?}/{}-limit/fd{}/pos{}", tier, limit, fd, pos),
                        tier,
                        script_mode: false,
                        docs: vec![d],
                        cli: Cli::default(),
                        sim,
                        pretty: false,
                        check: vec!["C14".into()],
                        partner: None,
                        turns: None,
                    };
                    fill_expectations(&mut sc, &mut g);
                    out.push(sc);
                }
            }
        }
    }
    out
}

/// C20: the exit status says the same whichever renderer prints the report - also for output
/// that is not text
pub fn lane_renderers(seed: u64) -> Vec<Scenario> {
    let mut out = vec![];
    let mut g = G::new(seed ^ 0x4e4d);
    for renderer in ["diff", "yaml", "pretty"] {
        for what in ["invalid-utf8", "controls", "plain", "all-pass", "skip", "wrong-code"] {
            for format in [Format::Md, Format::Cram] {
                let mut sim = base_sim(g.rng.next_u64());
                let mut t1 = g.test(&Plan::new(Fate::Pass), &mut sim.programs);
                let mut t2 = g.test(&Plan::new(if what == "all-pass" { Fate::Pass } else { Fate::WrongOutput }), &mut sim.programs);
                let tag = t2.nonce[..6].to_string();
                let bytes: Option<Vec<u8>> = match what {
                    "invalid-utf8" => Some([b"x\xffy ", tag.as_bytes(), b"\n\xc3\x28 tail\n"].concat()),
                    "controls" => Some([b"a\tb\x07 ", tag.as_bytes(), b"\x1b[1mbold\x1b[0m\r\n"].concat()),
                    _ => None,
                };
                if let Some(b) = bytes {
                    sim.programs.insert(t2.nonce.clone(), vec![Op::Out { fd: 1, data: Bytes(b.clone()) }, Op::Out { fd: 2, data: Bytes(b) }, Op::Status { code: 0 }]);
                }
                if what == "skip" {
                    sim.programs.insert(t1.nonce.clone(), vec![Op::Status { code: 80 }]);
                    t1.expectations = vec![];
                }
                if what == "wrong-code" {
                    sim.programs.insert(t2.nonce.clone(), vec![Op::Status { code: 3 }]);
                    t2.expectations = vec![];
                }
                let t3 = g.test(&Plan::new(Fate::Pass), &mut sim.programs);
                let ext = if format == Format::Cram { "t" } else { "md" };
                let d = doc(&format!("rnd/doc.{}", ext), format, vec![t1, t2, t3]);
                let mut sc = Scenario {
                    lane: format!("renderers/{}/{}/{}", renderer, what, ext),
                    tier: Tier::Cli,
                    script_mode: false,
                    docs: vec![d],
                    cli: Cli { renderer: Some(renderer.into()), ..Default::default() },
                    sim,
                    pretty: true,
                    check: vec!["C20".into()],
                    partner: None,
                    turns: None,
                };
                fill_expectations(&mut sc, &mut g);
                out.push(sc);
            }
        }
    }
    out
}

/// C13: what is captured of a single-script document that runs into its limit - output without
/// a final line break in front of scrut's divider, and output that merely looks like a divider
pub fn lane_script_partial(seed: u64) -> Vec<Scenario> {
    let mut out = vec![];
    let mut g = G::new(seed ^ 0x9a27);
    for first in ["unterminated", "terminated", "empty"] {
        for second in ["divider-like", "plain", "unterminated"] {
            for stream in [Stream::Combined, Stream::Stdout] {
                let mut sim = base_sim(g.rng.next_u64());
                let mut tests = vec![];
                for k in 0..3 {
                    let mut t = g.test(&Plan::new(Fate::Pass), &mut sim.programs);
                    let tag = t.nonce[..6].to_string();
                    let o = |s: String| Op::Out { fd: 1, data: s.as_str().into() };
                    let ops = match k {
                        0 => match first {
                            "unterminated" => vec![o(format!("abc-{}", tag)), Op::Status { code: 0 }],
                            "terminated" => vec![o(format!("abc-{}\n", tag)), Op::Status { code: 0 }],
                            _ => vec![Op::Status { code: 0 }],
                        },
                        1 => match second {
                            "divider-like" => vec![o(format!("x-{}\n~~~~~~~~EXECDIVIDER::fake\ny-{}", tag, tag)), Op::Out { fd: 2, data: "~~~~~~~~EXECDIVIDER::\n".into() }, Op::Hang],
                            "plain" => vec![o(format!("x-{}\n", tag)), Op::Hang],
                            _ => vec![o(format!("x-{}", tag)), Op::Hang],
                        },
                        _ => vec![o(format!("never-{}\n", tag)), Op::Status { code: 0 }],
                    };
                    sim.programs.insert(t.nonce.clone(), ops);
                    t.expectations = vec![];
                    t.expect_match = false;
                    tests.push(t);
                }
                let mut d = doc("partial.md", Format::Md, tests);
                d.total_timeout_ns = Some(2 * SEC);
                d.defaults.output_stream = Some(stream);
                let mut sc = Scenario {
                    lane: format!("script-partial/{}/{}/{:?}", first, second, stream),
                    tier: Tier::Lib,
                    script_mode: true,
                    docs: vec![d],
                    cli: Cli::default(),
                    sim,
                    pretty: false,
                    check: vec!["C13".into()],
                    partner: None,
                    turns: None,
                };
                fill_expectations(&mut sc, &mut g);
                out.push(sc);
            }
        }
    }
    out
}

/// C18, "several scrut processes running at the same time": two scenarios of the environment /
/// filesystem-fault lanes run as two real scrut processes on ONE temporary root (and one
/// --work-directory when both use it), interleaved at their announced turn points by a
/// seeded scheduler (runcli::run_duo). The modelled peer is switched off: the partner is real.
pub fn lane_duo(seed: u64, n: usize) -> Vec<Scenario> {
    let mut pool_a = lane_env(seed ^ 0xd0a);
    pool_a.extend(lane_fs_faults(seed ^ 0xd0a));
    let mut pool_b = lane_env(seed ^ 0xd0b);
    pool_b.extend(lane_fs_faults(seed ^ 0xd0b));
    let mut g = G::new(seed ^ 0xd00);
    let mut out = vec![];
    let (na, nb) = (pool_a.len(), pool_b.len());
    for k in 0..n {
        // (systematic walk through the first pool, drawn partner)
        let mut a = pool_a[(k * 7 + 3) % na].clone();
        let mut b = pool_b[g.below(nb as u64) as usize].clone();
        a.sim.peer.clear();
        b.sim.peer.clear();
        a.lane = format!("duo/{}+{}", a.lane, b.lane);
        a.check = vec!["C18".into()];
        b.check = vec!["C18".into()];
        a.partner = Some(Box::new(b));
        out.push(a);
    }
    out
}

/// C05 / C15 / C20 with scrut's own STDERR cut off (a log collector that went away, `2>&1 >report
/// | head`): diagnostics that go nowhere must not change a single result, the report on stdout or
/// the exit status. (With `--debug`, or with stdout cut off, the unchanged tree ends in a panic
/// of `eprintln!` / `print!` - recorded in DESIGN as an observation, not generated here: the
/// three properties quantify over documents and configurations, not over faults.)
pub fn lane_closed_stderr(seed: u64) -> Vec<Scenario> {
    let mut pool: Vec<Scenario> = vec![];
    pool.extend(lane_skip(seed ^ 0x5de).into_iter().step_by(4));
    pool.extend(lane_skip_interplay(seed ^ 0x5de).into_iter().step_by(6));
    pool.extend(lane_runs(seed ^ 0x5de).into_iter().step_by(6));
    pool.extend(lane_cli_fates(seed ^ 0x5de, 9));
    pool.into_iter()
        .filter(|s| s.tier == Tier::Cli && !s.pretty && s.cli.command.is_none())
        .enumerate()
        .map(|(i, mut s)| {
            s.lane = format!("closed-stderr/{}", s.lane);
            // (no option that makes scrut write to its stderr: the unchanged tree panics - with
            // `--log-level debug` even aborts - when it cannot; recorded in DESIGN, not generated)
            s.cli.debug = false;
            s.cli.verbose = false;
            s.cli.log_level = None;
            s.sim.faults.push(Fault::OutputClosed { nth: (i % 3) as u32, which: 2 });
            s
        })
        .collect()
}

/// C12 next to another scrut process: both run Markdown documents in the SAME --work-directory
/// (and temporary root); the state a test case finds is the one its own predecessor left - never
/// the other process' (lane `duo` of C18, restricted to pairs that share the directory)
pub fn lane_duo_state(seed: u64, n: usize) -> Vec<Scenario> {
    let pick = |s: &Scenario| s.cli.work_directory && !s.cli.cram_compat && s.docs.iter().all(|d| d.format == Format::Md && d.raw.is_none()) && s.cli.shell.is_none() && s.cli.missing_paths.is_empty();
    let pool_a: Vec<Scenario> = lane_env(seed ^ 0xd5a).into_iter().filter(pick).collect();
    let pool_b: Vec<Scenario> = lane_env(seed ^ 0xd5b).into_iter().filter(pick).collect();
    let mut g = G::new(seed ^ 0xd50);
    let mut out = vec![];
    if pool_a.is_empty() || pool_b.is_empty() {
        return out;
    }
    for k in 0..n {
        let mut a = pool_a[(k * 5 + 1) % pool_a.len()].clone();
        let mut b = pool_b[g.below(pool_b.len() as u64) as usize].clone();
        a.sim.peer.clear();
        b.sim.peer.clear();
        a.lane = format!("duo-state/{}+{}", a.lane, b.lane);
        a.check = vec!["C12".into(), "C18".into()];
        b.check = vec!["C12".into(), "C18".into()];
        a.partner = Some(Box::new(b));
        out.push(a);
    }
    out
}

// ------------------------------------------------------------------ lane: host-env

/// The environment scrut itself is started in is no part of any property: a variable named
/// after a command-line option (`SCRUT_TIMEOUT_SECONDS`, `SCRUT_SHELL` ...) or a `PWD` that its
/// parent did not keep up to date must not change what the documents and the command line say.
/// Scenarios of other lanes, run once more in such an environment; the oracles are unchanged.
pub fn lane_host_env(seed: u64, prop: &str) -> Vec<Scenario> {
    let mut bases: Vec<Scenario> = vec![];
    bases.extend(
        lane_cli_timing(seed, 1)
            .into_iter()
            .filter(|s| {
                (s.lane.contains("doc-ShortFront/test-Absent") || s.lane.contains("doc-Absent/test-Shorter/") || s.lane.contains("doc-HugeCli/test-Absent"))
                    && (s.lane.contains("/Long/") || s.lane.contains("/Short/"))
                    && s.lane.contains("wait-None")
                    && !s.lane.contains("/with-")
            })
            .take(24),
    );
    bases.extend(lane_env(seed).into_iter().filter(|s| s.lane.contains("/md/one") || s.lane.contains("/cram/one") || s.lane.contains("/md/prepend")).take(18));
    bases.extend(lane_skip(seed).into_iter().step_by(37).take(12));
    bases.extend(lane_cli_fates(seed, 16).into_iter().take(24));
    bases.extend(lane_runs(seed).into_iter().step_by(5).take(16));
    bases.extend(lane_random(Tier::Cli, seed ^ 0x4057, 40, prop));
    let mut out = vec![];
    for (k, b) in bases.into_iter().enumerate() {
        if b.partner.is_some() || b.cli.command.is_some() {
            continue;
        }
        let mut a = b.clone();
        a.lane = format!("host-env/option-variables/{}", b.lane);
        a.cli.host_env = vec![
            ("SCRUT_TIMEOUT_SECONDS".into(), ["0", "600", "1"][k % 3].into()),
            ("SCRUT_SHELL".into(), "/bin/false".into()),
            ("SCRUT_WORK_DIRECTORY".into(), "$ROOT/env-work".into()),
            ("SCRUT_KEEP_TEMPORARY_DIRECTORIES".into(), "true".into()),
            ("SCRUT_CRAM_COMPAT".into(), "true".into()),
            ("SCRUT_COMBINE_OUTPUT".into(), "true".into()),
            ("SCRUT_KEEP_OUTPUT_CRLF".into(), "true".into()),
            ("SCRUT_ABSOLUTE_LINE_NUMBERS".into(), "true".into()),
            ("SCRUT_MATCH_MARKDOWN".into(), "*.nothing".into()),
            ("SCRUT_MATCH_CRAM".into(), "*.nothing".into()),
            ("SCRUT_NO_COLOR".into(), "true".into()),
            ("SCRUT_SKIP_DOCUMENT_CODE".into(), "0".into()),
        ];
        out.push(a);
        let mut c = b.clone();
        c.lane = format!("host-env/stale-pwd/{}", b.lane);
        c.cli.host_env = vec![("PWD".into(), "$ROOT/elsewhere".into()), ("OLDPWD".into(), "$ROOT/elsewhere/before".into())];
        out.push(c);
    }
    out
}

// ------------------------------------------------------------------ lane: closed-stdout (C20)

/// `scrut test ... | head -n 0`: the reader of scrut's standard output is gone, the report cannot
/// be written. Whatever scrut does about that, a run in which a test case failed does not end
/// with 0. (No report can be expected: only the exit status is looked at.)
pub fn lane_closed_stdout(seed: u64) -> Vec<Scenario> {
    let mut bases = lane_cli_fates(seed ^ 0x57d0, 5);
    bases.extend(lane_runs(seed ^ 0x57d0).into_iter().step_by(3));
    bases
        .into_iter()
        .filter(|s| s.partner.is_none() && s.cli.command.is_none() && s.sim.faults.is_empty())
        .enumerate()
        .map(|(i, mut s)| {
            s.lane = format!("closed-stdout/{}", s.lane);
            s.sim.faults.push(Fault::OutputClosed { nth: (i % 3) as u32, which: 1 });
            // (no report can be expected)
            s.pretty = true;
            s.check = vec!["C20".into()];
            s
        })
        .collect()
}

// ------------------------------------------------------------------ lane: detached-in-a-row

/// Several `detached` test cases one after the other: scrut does not wait for any of them, so the
/// shell of the first may not have read its script yet - which it gets through a file - when the
/// next one is started. Each runs its own expression, once.
pub fn lane_detached_in_a_row(seed: u64) -> Vec<Scenario> {
    let mut out = vec![];
    let mut g = G::new(seed ^ 0xde7a);
    for tier in [Tier::Lib, Tier::Cli] {
        for (shape, plans) in [
            ("two-then-pass", vec![Fate::Detached, Fate::Detached, Fate::Pass]),
            ("pass-three-pass", vec![Fate::Pass, Fate::Detached, Fate::Detached, Fate::Detached, Fate::Pass]),
            ("only-two", vec![Fate::Detached, Fate::Detached]),
            ("two-then-slow", vec![Fate::Detached, Fate::Detached, Fate::Slow { ns: SEC }, Fate::Pass]),
        ] {
            for latency in [1u64, 1_000_000, 20_000_000] {
                let mut sim = base_sim(g.rng.next_u64());
                sim.swarm.spawn_latency_max_ns = latency;
                let tests: Vec<Test> = plans.iter().map(|f| g.test(&Plan::new(f.clone()), &mut sim.programs)).collect();
                // (detached shells that take their time: each is still at work when the next starts)
                for (t, f) in tests.iter().zip(plans.iter()) {
                    if *f == Fate::Detached {
                        sim.programs.insert(t.nonce.clone(), vec![Op::Sleep { ns: 200 * MS }, Op::Touch { rel: format!("done-{}", &t.nonce[..6]) }, Op::Sleep { ns: 200 * MS }, Op::Status { code: 0 }]);
                    }
                }
                let mut sc = Scenario {
                    lane: format!("detached-in-a-row/{:?}/{}/latency-{}ns", tier, shape, latency),
                    tier,
                    script_mode: false,
                    docs: vec![doc("row/doc.md", Format::Md, tests)],
                    cli: Cli::default(),
                    sim,
                    pretty: false,
                    check: all_checks(),
                    partner: None,
                    turns: None,
                };
                fill_expectations(&mut sc, &mut g);
                out.push(sc);
            }
        }
    }
    out
}
