//! Reference model + oracles (DESIGN §5.3, §6). The model is written from the property
//! statements: given the scenario and the *environment facts* of the run (what the
//! simulated OS did: how each process ended, when, which faults fired), it says which
//! reports, deliveries, captured bytes, exit statuses are allowed. Where the properties
//! leave freedom the allowed set has more than one element.

use std::collections::BTreeMap;
use std::collections::BTreeSet;

use scrut::verif_sim::scenario::*;

use crate::facts::*;
use crate::obs::*;
use crate::scn::*;

#[derive(Clone, Debug, PartialEq, Eq, serde::Serialize, serde::Deserialize)]
pub struct Violation {
    pub property: String,
    /// short stable label, e.g. `passed-without-exit-code`
    pub class: String,
    pub detail: String,
    /// nonce of the test case concerned, if any
    pub nonce: Option<String>,
}

fn v(property: &str, class: &str, nonce: Option<&str>, detail: String) -> Violation {
    Violation {
        property: property.into(),
        class: class.into(),
        detail,
        nonce: nonce.map(|s| s.to_string()),
    }
}

const MS: u64 = 1_000_000;

/// tests of a main document in execution order: prepend, own, append
pub fn exec_list<'a>(sc: &'a Scenario, main: &'a Doc) -> Vec<(&'a Doc, &'a Test)> {
    let dir = match main.path.rfind('/') {
        Some(i) => &main.path[..i + 1],
        None => "",
    };
    let by_path = |p: &str| sc.docs.iter().find(|d| d.path == p);
    let mut out = vec![];
    let mut add = |d: Option<&'a Doc>| {
        if let Some(d) = d {
            for t in &d.tests {
                out.push((d, t));
            }
        }
    };
    for p in &sc.cli.prepend {
        add(by_path(p));
    }
    for p in &main.prepend {
        add(by_path(&format!("{}{}", dir, p)));
    }
    add(Some(main));
    for p in &main.append {
        add(by_path(&format!("{}{}", dir, p)));
    }
    for p in &sc.cli.append {
        add(by_path(p));
    }
    out
}

#[derive(Clone, Debug, PartialEq, Eq)]
pub enum Stop {
    /// a test case exited with its skip code
    Skip(usize),
    /// scrut stopped waiting for test case i
    Timeout(usize),
    /// test case i ended without an exit code
    NoCode(usize),
    /// scrut could not do its job (spawn failure, wait failure, script abort ...)
    RunFail(usize),
}

#[derive(Clone, Debug, PartialEq, Eq)]
pub enum Allowed {
    Exactly(Report),
    /// any failure kind, or no result at all; never success
    NotSuccess,
    AnyOf(Vec<&'static str>),
    Anything,
}

impl Allowed {
    pub fn admits(&self, r: &Report) -> bool {
        match self {
            Allowed::Exactly(x) => match (x, r) {
                // the expected value in an InvalidExitCode is part of the judgement too
                (a, b) => a == b,
            },
            Allowed::NotSuccess => *r != Report::Success,
            Allowed::AnyOf(k) => k.contains(&r.short()),
            Allowed::Anything => true,
        }
    }
}

#[derive(Clone, Debug)]
pub struct TestJudgement {
    pub nonce: String,
    pub allowed: Allowed,
    /// Some(true): must have been handed to a shell exactly once; Some(false): must not
    pub must_run: Option<bool>,
    /// which property the `allowed` verdict belongs to
    pub prop: &'static str,
    pub class: &'static str,
    pub why: String,
    pub pid: Option<u32>,
    /// expected captured (stdout, stderr, code) when the executor returned an output with a code
    pub raw: Option<(Vec<u8>, Vec<u8>, i32)>,
    /// judged on a deterministic, fault-free basis
    pub exact: bool,
    pub detached: bool,
}

#[derive(Clone, Debug, Default)]
pub struct DocJudgement {
    pub doc: usize,
    pub tests: Vec<TestJudgement>,
    pub stop: Option<Stop>,
    /// scrut cannot do its job for this document => the run exits 1
    pub run_fail: bool,
    /// some test case of the document is (allowed to be) a failure / must be a failure
    pub must_fail: bool,
    pub may_fail: bool,
    pub skipped_doc: bool,
    pub faulted: bool,
    /// single-script mode: scrut refused the document although nothing in it calls for that
    pub refused_without_cause: bool,
}

/// the stream the expectations are applied to, after the documented transformations
pub fn expected_streams(eff: &Effective, w: &Written) -> (Vec<u8>, Vec<u8>) {
    let (o, e) = if eff.stream == Stream::Combined {
        (w.merged.clone(), vec![])
    } else {
        (w.fd1.clone(), w.fd2.clone())
    };
    (transform(&o, eff.keep_crlf), transform(&e, eff.keep_crlf))
}

fn code_report(t: &Test, code: i32) -> Report {
    let expected = t.expected_code.unwrap_or(0);
    if code != expected {
        Report::InvalidExitCode { actual: code, expected }
    } else if t.expect_match {
        Report::Success
    } else {
        Report::Malformed
    }
}

pub struct Ctx<'a> {
    pub sc: &'a Scenario,
    pub obs: &'a Observation,
    pub facts: &'a Facts,
    /// the process ran next to another scrut process on the same temporary root: what is on
    /// disk is judged for the pair, not per process
    pub duo: bool,
}

impl<'a> Ctx<'a> {
    fn script_mode(&self, main: &Doc) -> bool {
        match self.sc.tier {
            Tier::Lib => self.sc.script_mode,
            Tier::Cli => main.format == Format::Cram || self.sc.cli.cram_compat,
        }
    }

    fn prog(&self, nonce: &str) -> Written {
        written(self.sc.sim.programs.get(nonce).map(|v| &v[..]).unwrap_or(&[]))
    }

    /// The walk through one executing document.
    pub fn judge_doc(&self, di: usize) -> DocJudgement {
        let main = &self.sc.docs[di];
        if self.script_mode(main) {
            self.judge_doc_script(di)
        } else {
            self.judge_doc_procs(di)
        }
    }

    fn judge_doc_procs(&self, di: usize) -> DocJudgement {
        let sc = self.sc;
        let main = &sc.docs[di];
        let list = exec_list(sc, main);
        let mut j = DocJudgement {
            doc: di,
            ..Default::default()
        };
        let mut stop: Option<Stop> = None;
        for (i, (tdoc, t)) in list.iter().enumerate() {
            let eff = sc.effective(main, tdoc, t);
            let w = self.prog(&t.nonce);
            let mut tj = TestJudgement {
                nonce: t.nonce.clone(),
                allowed: Allowed::Anything,
                must_run: None,
                prop: "C05",
                class: "",
                why: String::new(),
                pid: None,
                raw: None,
                exact: false,
                detached: false,
            };
            // after a death without exit code the property only speaks about test cases that
            // consequently did not run; one that did run is judged like any other
            if matches!(stop, Some(Stop::NoCode(_))) && self.facts.delivered.contains_key(&t.nonce) {
                stop = None;
            }
            if let Some(s) = &stop {
                tj.must_run = if matches!(s, Stop::NoCode(_) | Stop::RunFail(_)) { None } else { Some(false) };
                match s {
                    Stop::Skip(k) => {
                        tj.allowed = Allowed::Exactly(Report::Skipped);
                        tj.prop = "C15";
                        tj.class = "not-skipped-after-skip-code";
                        tj.why = format!("test #{} exited with its skip code", k + 1);
                    }
                    Stop::Timeout(k) => {
                        tj.allowed = Allowed::Exactly(Report::Skipped);
                        tj.prop = "C14";
                        tj.class = "not-skipped-after-timeout";
                        tj.why = format!("test #{} timed out", k + 1);
                    }
                    Stop::NoCode(k) => {
                        tj.allowed = Allowed::NotSuccess;
                        tj.prop = "C05";
                        tj.class = "passed-though-never-run";
                        tj.why = format!("test #{} ended without an exit code, this one did not run", k + 1);
                    }
                    Stop::RunFail(k) => {
                        tj.allowed = Allowed::NotSuccess;
                        tj.prop = "C05";
                        tj.class = "passed-though-never-run";
                        tj.why = format!("execution failed at test #{}", k + 1);
                    }
                }
                j.tests.push(tj);
                continue;
            }
            // which process got this test?
            let pids = self.facts.delivered.get(&t.nonce).cloned().unwrap_or_default();
            let Some(&pid) = pids.first() else {
                // never handed to a shell although nothing stopped the document: either a spawn
                // failure at this position, or scrut dropped it
                if !self.facts.spawn_failed.is_empty() || self.facts.fault_kinds.iter().any(|k| k.starts_with("fs_error")) {
                    stop = Some(Stop::RunFail(i));
                    j.run_fail = true;
                    j.faulted = true;
                    tj.allowed = Allowed::NotSuccess;
                    tj.class = "passed-without-exit-code";
                    tj.why = "shell could not be started".into();
                } else {
                    // (whatever the reason: an expression that never reached a shell has not
                    // "terminated with the expected exit code")
                    tj.must_run = Some(true);
                    tj.allowed = Allowed::NotSuccess;
                    tj.class = "passed-though-never-run";
                    tj.why = "never handed to a shell".into();
                }
                j.tests.push(tj);
                continue;
            };
            tj.pid = Some(pid);
            tj.must_run = Some(true);
            let p = &self.facts.procs[pid as usize];
            if !p.faults.is_empty() {
                j.faulted = true;
            }
            if eff.detached {
                // no evaluation, at most one (i.e. no) result, execution continues
                // (at most one result: whether there is one is not fixed by the properties - but
                // scrut never learns how a detached command ended, so "succeeded" it cannot be)
                tj.allowed = Allowed::NotSuccess;
                tj.class = "passed-without-exit-code";
                tj.detached = true;
                tj.why = "detached: scrut does not wait for it and has no exit code to judge".into();
                j.tests.push(tj);
                continue;
            }
            let mut comm = p.comm_result().unwrap_or("none").to_string();
            let waited_err = p.wait.as_ref().map(|w| w.1.starts_with("err")).unwrap_or(false);
            // the pipes reached EOF but the process ran on until scrut ended it: that is a
            // timeout as well (scrut stopped waiting for this test case)
            if comm == "ok" && p.stopped_waiting().map(|s| s.2 == "timed_out").unwrap_or(false) {
                comm = "timed_out".into();
            }
            // ... and a read round that ran out of time after which scrut went on to wait for the
            // process, and got its status, is not one
            if comm == "timed_out" && p.stopped_waiting().map(|s| s.2 == "ok").unwrap_or(false) {
                comm = "ok".into();
            }
            if comm == "timed_out" {
                stop = Some(Stop::Timeout(i));
                j.must_fail = true;
                tj.allowed = Allowed::Exactly(Report::Timeout);
                tj.prop = "C14";
                tj.class = "timeout-not-reported";
                tj.why = "scrut stopped waiting for this test case".into();
            } else if comm.starts_with("err") || comm == "none" {
                stop = Some(Stop::NoCode(i));
                j.may_fail = true;
                j.faulted = true;
                tj.allowed = Allowed::NotSuccess;
                tj.class = "passed-without-exit-code";
                tj.why = format!("communication ended with {}", comm);
            } else if waited_err {
                stop = Some(Stop::RunFail(i));
                j.run_fail = true;
                j.faulted = true;
                tj.allowed = Allowed::NotSuccess;
                tj.class = "passed-without-exit-code";
                tj.why = "wait() failed".into();
            } else if let Some(code) = p.exit_code() {
                // the command completed with an exit code
                if code == eff.skip_code {
                    stop = Some(Stop::Skip(i));
                    j.skipped_doc = true;
                    tj.allowed = Allowed::Exactly(Report::Skipped);
                    tj.prop = "C15";
                    tj.class = "not-skipped-after-skip-code";
                    tj.why = format!("exited with its skip code {}", code);
                    tj.exact = true;
                } else {
                    let complete = p.cmds.first().map(|c| c.complete).unwrap_or(false);
                    let r = code_report(t, code);
                    if r.is_failure() {
                        j.must_fail = true;
                    }
                    tj.allowed = Allowed::Exactly(r);
                    tj.class = "wrong-verdict";
                    tj.why = format!("exited with code {}", code);
                    tj.exact = complete && p.faults.is_empty();
                    let (o, e) = expected_streams(&eff, &w);
                    tj.raw = Some((o, e, code));
                    if !tj.exact {
                        // the shell did not get the whole command (or a fault hit): only the
                        // negative half holds
                        if !matches!(tj.allowed, Allowed::Exactly(Report::InvalidExitCode { .. })) {
                            tj.allowed = Allowed::Anything;
                        }
                        tj.raw = None;
                    }
                }
            } else {
                // killed by a signal (or never finished but communication ended, e.g. closed fds)
                stop = Some(Stop::NoCode(i));
                j.may_fail = true;
                tj.allowed = Allowed::NotSuccess;
                tj.class = "passed-without-exit-code";
                tj.why = format!("ended without an exit code ({:?})", p.exit.as_ref().map(|e| &e.1));
            }
            j.tests.push(tj);
        }
        if j.skipped_doc {
            // every test case of the document is reported as skipped, none as failed or passed
            for tj in j.tests.iter_mut() {
                if !tj.detached {
                    tj.allowed = Allowed::Exactly(Report::Skipped);
                    tj.prop = "C15";
                    tj.class = "not-skipped-after-skip-code";
                }
            }
            j.must_fail = false;
            j.may_fail = false;
        }
        j.stop = stop;
        j
    }

    fn judge_doc_script(&self, di: usize) -> DocJudgement {
        let sc = self.sc;
        let main = &sc.docs[di];
        let list = exec_list(sc, main);
        let mut j = DocJudgement {
            doc: di,
            ..Default::default()
        };
        let mk = |t: &Test| TestJudgement {
            nonce: t.nonce.clone(),
            allowed: Allowed::Anything,
            must_run: None,
            prop: "C05",
            class: "",
            why: String::new(),
            pid: None,
            raw: None,
            exact: false,
            detached: false,
        };
        j.tests = list.iter().map(|(_, t)| mk(t)).collect();
        if list.is_empty() {
            return j;
        }
        // per-test timeouts are not supported in this mode: refusing (exit 1) is accepted
        let per_test_timeout = list
            .iter()
            .any(|(d, t)| sc.effective(main, d, t).timeout_ns.is_some());
        // the one process that got the script
        let pid = list
            .iter()
            .find_map(|(_, t)| self.facts.delivered.get(&t.nonce).and_then(|p| p.first().copied()));
        let Some(pid) = pid else {
            j.run_fail = true;
            j.stop = Some(Stop::RunFail(0));
            j.faulted = !self.facts.spawn_failed.is_empty() || self.facts.fault_kinds.iter().any(|k| k.starts_with("fs_error"));
            // this mode has one configuration for the whole script: test cases whose settings
            // differ (also: Markdown and Cram test cases mixed by prepend / append) are refused
            let setting = |d: &Doc, t: &Test| {
                let c = t.cfg.over(&d.defaults).over(&main.defaults);
                (c.detached, c.keep_crlf, c.output_stream, c.skip_code, c.wait.clone(), c.env.clone(), sc.cram_semantics(d))
            };
            let first = setting(list[0].0, list[0].1);
            let mixed = list.iter().any(|(d, t)| setting(d, t) != first);
            j.refused_without_cause = !j.faulted && !per_test_timeout && !mixed;
            for tj in j.tests.iter_mut() {
                tj.allowed = Allowed::NotSuccess;
                tj.class = "passed-though-never-run";
                tj.why = if per_test_timeout {
                    "per-test timeout in single-script mode: refused".into()
                } else {
                    "script was never handed to a shell".into()
                };
            }
            return j;
        };
        let p = &self.facts.procs[pid as usize];
        if !p.faults.is_empty() {
            j.faulted = true;
        }
        for tj in j.tests.iter_mut() {
            tj.pid = Some(pid);
        }
        // a command that closes the ONE shell's stdout or stderr takes scrut's own divider lines
        // with it: scrut cannot tell the test cases apart any more and gives up (exit 1)
        if list.iter().any(|(_, t)| self.prog(&t.nonce).closes_streams) {
            j.run_fail = true;
            j.may_fail = true;
            j.stop = Some(Stop::NoCode(0));
            for tj in j.tests.iter_mut() {
                tj.allowed = Allowed::Anything;
                tj.why = "a command closed the script's own output streams".into();
            }
            return j;
        }
        let comm = p.comm_result().unwrap_or("none").to_string();
        let waited_err = p.wait.as_ref().map(|w| w.1.starts_with("err")).unwrap_or(false);
        let skip_code = sc.effective(main, list[0].0, list[0].1).skip_code;
        let cmd_of = |n: &str| p.cmds.iter().find(|c| c.nonce == n);
        if comm == "timed_out" {
            let abort_t = p.comm_end.as_ref().map(|c| c.0).unwrap_or(0);
            j.must_fail = true;
            j.stop = Some(Stop::Timeout(0));
            for (k, (_, t)) in list.iter().enumerate() {
                let finished = cmd_of(&t.nonce)
                    .and_then(|c| c.end_t)
                    .map(|e| e <= abort_t)
                    .unwrap_or(false);
                let tj = &mut j.tests[k];
                tj.prop = "C14";
                if finished {
                    tj.allowed = Allowed::AnyOf(vec![
                        "success",
                        "invalid_exit_code",
                        "malformed_output",
                        "skipped",
                        "none",
                    ]);
                    tj.class = "finished-command-reported-timed-out";
                    tj.why = "finished before the document limit expired".into();
                } else {
                    tj.allowed = Allowed::AnyOf(vec!["timeout", "skipped", "none"]);
                    tj.class = "unfinished-command-not-failed";
                    tj.why = "did not finish before the document limit expired".into();
                }
            }
            return j;
        }
        if comm.starts_with("err") || comm == "none" || waited_err || p.exit_code().is_none() {
            j.run_fail = true;
            j.may_fail = true;
            j.faulted = j.faulted || comm.starts_with("err") || waited_err;
            j.stop = Some(Stop::NoCode(0));
            for tj in j.tests.iter_mut() {
                tj.allowed = Allowed::NotSuccess;
                tj.class = "passed-without-exit-code";
                tj.why = format!("script process gave no exit code (comm {}, exit {:?})", comm, p.exit);
            }
            return j;
        }
        let whole = p.exit_code().unwrap();
        // statuses per command, as far as the script got
        let mut statuses: Vec<Option<i32>> = vec![];
        for (_, t) in &list {
            statuses.push(cmd_of(&t.nonce).and_then(|c| if c.end_t.is_some() { c.status } else { None }));
        }
        let n_done = statuses.iter().take_while(|s| s.is_some()).count();
        let any_skip = whole == skip_code || statuses.iter().take(n_done).any(|s| *s == Some(skip_code));
        if any_skip {
            j.skipped_doc = true;
            j.stop = Some(Stop::Skip(0));
            for tj in j.tests.iter_mut() {
                tj.allowed = Allowed::Exactly(Report::Skipped);
                tj.prop = "C15";
                tj.class = "not-skipped-after-skip-code";
                tj.why = "a command of the script ended with the skip code".into();
                tj.exact = p.faults.is_empty();
            }
            return j;
        }
        if n_done < list.len() {
            // the script ended early (`exit c` in a command): tests >= i never succeed
            j.run_fail = true;
            j.may_fail = true;
            j.stop = Some(Stop::NoCode(n_done));
            for (k, tj) in j.tests.iter_mut().enumerate() {
                if k >= n_done {
                    tj.allowed = Allowed::NotSuccess;
                    tj.class = "passed-though-never-run";
                    tj.why = format!("the script ended inside command #{}", n_done + 1);
                }
            }
            return j;
        }
        // consistent per-test configuration is required in this mode
        for (k, (d, t)) in list.iter().enumerate() {
            let eff = sc.effective(main, d, t);
            let w = self.prog(&t.nonce);
            let code = statuses[k].unwrap();
            let r = code_report(t, code);
            if r.is_failure() {
                j.must_fail = true;
            }
            let tj = &mut j.tests[k];
            tj.must_run = Some(true);
            tj.allowed = Allowed::Exactly(r);
            tj.class = "wrong-verdict";
            tj.why = format!("command ended with status {}", code);
            tj.exact = p.faults.is_empty();
            let (o, e) = expected_streams(&eff, &w);
            tj.raw = Some((o, e, code));
        }
        j
    }

    // -------------------------------------------------------------- C05 / C15 (verdicts)

    pub fn check_reports(&self, out: &mut Vec<Violation>) -> Vec<DocJudgement> {
        let mut judgements = vec![];
        // no report to compare with when scrut bailed out, crashed or was stopped
        let no_report = match self.sc.tier {
            Tier::Cli => self.sc.pretty || self.sc.cli.command.is_some() || self.obs.exit_status == Some(1) || self.obs.exit_signal.is_some() || self.obs.sim_abort.is_some() || self.obs.exit_status.is_none(),
            Tier::Lib => {
                self.obs.sim_abort.is_some()
                    || self.obs.panic.is_some()
                    || self
                        .obs
                        .docs
                        .iter()
                        .any(|d| matches!(d.exec, ExecResult::Failed { .. } | ExecResult::Aborted { .. } | ExecResult::Unknown))
            }
        };
        // documents are read and parsed before anything is executed: an unparsable main
        // document or a missing path ends the run before the first test case
        let upfront = self.sc.tier == Tier::Cli
            && (!self.sc.cli.missing_paths.is_empty() || self.sc.docs.iter().any(|d| d.main && d.raw.is_some()));
        let mut run_aborted = upfront;
        for d in &self.obs.docs {
            // a document whose shell does not exist or whose prepend/append cannot be read
            // ends the run when it is reached
            if self.sc.tier == Tier::Cli && !run_aborted {
                let main = &self.sc.docs[d.doc];
                let dir = match main.path.rfind('/') {
                    Some(i) => &main.path[..i + 1],
                    None => "",
                };
                let shell_missing = self.sc.cli.shell.is_none()
                    && main.shell.as_deref().map(|s| !shell_exists(s)).unwrap_or(false)
                    || self.sc.cli.shell.as_deref().map(|s| !shell_exists(s)).unwrap_or(false);
                let bad_ref = main.prepend.iter().chain(main.append.iter()).any(|p| {
                    let full = format!("{}{}", dir, p);
                    match self.sc.docs.iter().find(|x| x.path == full) {
                        None => true,
                        Some(x) => x.raw.is_some(),
                    }
                });
                if shell_missing || bad_ref {
                    run_aborted = true;
                }
            }
            if run_aborted {
                // scrut ended the run in an earlier document: nothing is demanded of this one
                let list = exec_list(self.sc, &self.sc.docs[d.doc]);
                judgements.push(DocJudgement {
                    doc: d.doc,
                    tests: list
                        .iter()
                        .map(|(_, t)| TestJudgement {
                            nonce: t.nonce.clone(),
                            allowed: Allowed::NotSuccess,
                            must_run: None,
                            prop: "C05",
                            class: "passed-though-never-run",
                            why: "the run ended in an earlier document".into(),
                            pid: self.facts.delivered.get(&t.nonce).and_then(|p| p.first().copied()),
                            raw: None,
                            exact: false,
                            detached: false,
                        })
                        .collect(),
                    run_fail: true,
                    ..Default::default()
                });
                continue;
            }
            let j = self.judge_doc(d.doc);
            if j.run_fail {
                run_aborted = true;
            }
            // (only the document scrut names as the failing one: the run ends with the first failure)
            let named = self
                .obs
                .cli
                .as_ref()
                .and_then(|c| c.doc_path.get(&self.sc.docs[d.doc].path))
                .map(|p| self.obs.stderr.contains(&format!("failing in {:?}", p)))
                .unwrap_or(false);
            // (with scrut's own stderr cut off there is no message to read: the run ended in the
            // last document any test case of which reached a shell)
            let stderr_dead = self.facts.fault_kinds.iter().any(|k| k == "output_closed:stderr" || k == "output_closed");
            let last_touched = self
                .obs
                .docs
                .iter()
                .rposition(|dd| dd.tests.iter().any(|t| self.facts.delivered.get(&t.nonce).map(|p| !p.is_empty()).unwrap_or(false)))
                .map(|i| self.obs.docs[i].doc);
            // (a shell that could not be started belongs to the document AFTER the last one
            // that reached a shell: no guess then)
            let named = named || (stderr_dead && last_touched == Some(d.doc) && self.facts.spawn_failed.is_empty());
            // a document in which a test case ended with its skip code is skipped - it does not
            // make the run fail
            if j.skipped_doc && !j.faulted && named && self.sc.tier == Tier::Cli && self.obs.sim_abort.is_none() && self.obs.exit_status == Some(1) {
                out.push(v(
                    "C15",
                    "skip-makes-run-fail",
                    j.tests.first().map(|t| t.nonce.as_str()),
                    format!(
                        "document {}: a test case ended with its skip code, yet scrut gave up on the document (exit status 1): {}",
                        self.sc.docs[d.doc].path,
                        self.obs.stderr.lines().find(|l| l.contains("Error")).unwrap_or("").chars().take(300).collect::<String>()
                    ),
                ));
            }
            // ... or it ran every command to its end and then gave up on what came back
            let gave_up_after = !j.run_fail && !j.faulted && j.stop.is_none() && j.tests.iter().all(|t| t.pid.is_some());
            if (j.refused_without_cause || gave_up_after) && named && self.sc.tier == Tier::Cli && self.obs.sim_abort.is_none() && self.obs.exit_status == Some(1) {
                for prop in ["C13", "C20"] {
                    out.push(v(
                        prop,
                        "execution-error-without-cause",
                        j.tests.first().map(|t| t.nonce.as_str()),
                        format!(
                            "document {}: scrut gave up although the document is well-formed, every command that ran completed and nothing failed: {}",
                            self.sc.docs[d.doc].path,
                            self.obs.stderr.lines().find(|l| l.contains("Error")).unwrap_or("").chars().take(300).collect::<String>()
                        ),
                    ));
                }
            }
            // the executor gave up although every process ended with an exit code and no fault
            // was injected: nothing got recorded for commands that did complete
            if let ExecResult::Failed { error, .. } | ExecResult::Aborted { error } = &d.exec {
                if !j.run_fail && !j.faulted && j.stop.is_none() {
                    for prop in ["C13", "C20"] {
                        out.push(v(
                            prop,
                            "execution-error-without-cause",
                            j.tests.first().map(|t| t.nonce.as_str()),
                            format!(
                                "document {}: every command completed with an exit code, yet scrut failed with: {}",
                                self.sc.docs[d.doc].path,
                                error.lines().next().unwrap_or("")
                            ),
                        ));
                    }
                }
            }
            if no_report {
                judgements.push(j);
                continue;
            }
            for tj in &j.tests {
                let Some(to) = d.tests.iter().find(|t| t.nonce == tj.nonce) else {
                    continue;
                };
                if !tj.allowed.admits(&to.report) {
                    let (prop, class) = match (&tj.allowed, &to.report) {
                        (Allowed::NotSuccess, _) => ("C05", tj.class),
                        (Allowed::Exactly(Report::Skipped), _) => (tj.prop, tj.class),
                        (Allowed::Exactly(Report::Timeout), _) => ("C14", "timeout-not-reported"),
                        (Allowed::Exactly(Report::None), _) => ("C20", "result-for-detached"),
                        (Allowed::Exactly(_), Report::Skipped) => ("C15", "skipped-without-skip-code"),
                        (Allowed::Exactly(_), Report::Timeout) => ("C14", "timeout-reported-for-finished-command"),
                        (Allowed::Exactly(Report::InvalidExitCode { .. }), _) => ("C05", "wrong-exit-code-not-reported"),
                        (Allowed::Exactly(Report::Success), _) => ("C05", "false-failure"),
                        (Allowed::Exactly(Report::Malformed), Report::Success) => ("C05", "false-pass"),
                        _ => (tj.prop, tj.class),
                    };
                    out.push(v(
                        prop,
                        class,
                        Some(&tj.nonce),
                        format!(
                            "doc {} test {}: reported {:?}, allowed {:?} because {}",
                            self.sc.docs[d.doc].path, tj.nonce, to.report, tj.allowed, tj.why
                        ),
                    ));
                    // a command that scrut itself aborted has produced no exit code either: reported
                    // as SUCCEEDED it is C05's business as well as C14's
                    if matches!(tj.allowed, Allowed::Exactly(Report::Timeout)) && to.report == Report::Success {
                        out.push(v(
                            "C05",
                            "passed-without-exit-code",
                            Some(&tj.nonce),
                            format!("doc {} test {}: reported as succeeded although scrut aborted it ({})", self.sc.docs[d.doc].path, tj.nonce, tj.why),
                        ));
                    }
                }
                if to.results > 1 {
                    out.push(v(
                        "C20",
                        "more-than-one-result",
                        Some(&tj.nonce),
                        format!("{} results for one test case", to.results),
                    ));
                }
            }
            // C15, second half: no skip without a skip code (except after a timeout)
            if !j.skipped_doc {
                let script = self.script_mode(&self.sc.docs[d.doc]);
                for (k, tj) in j.tests.iter().enumerate() {
                    let Some(to) = d.tests.iter().find(|t| t.nonce == tj.nonce) else {
                        continue;
                    };
                    let after_timeout = match &j.stop {
                        Some(Stop::Timeout(i)) => script || k > *i,
                        _ => false,
                    };
                    // (when `allowed` does not admit Skipped the mismatch was reported above)
                    // (a second result for a test case that says "skipped" is a test case reported as
                    // skipped just the same)
                    if to.further.iter().any(|r| *r == Report::Skipped) && to.report != Report::Skipped && !after_timeout {
                        out.push(v(
                            "C15",
                            "skipped-without-skip-code",
                            Some(&tj.nonce),
                            format!("test {} is reported as {:?} and once more as skipped; no test case exited with its skip code and it does not follow a timed-out one", tj.nonce, to.report),
                        ));
                    }
                    if to.report == Report::Skipped && !after_timeout && tj.allowed.admits(&Report::Skipped) {
                        out.push(v(
                            "C15",
                            "skipped-without-skip-code",
                            Some(&tj.nonce),
                            format!("test {} reported skipped but no test case exited with its skip code", tj.nonce),
                        ));
                    }
                }
            }
            judgements.push(j);
        }
        judgements
    }

    // -------------------------------------------------------------- C13 (bytes, verbatim)

    pub fn check_bytes(&self, judgements: &[DocJudgement], out: &mut Vec<Violation>) {
        // verbatim: every expression handed to a shell appears in the script exactly as written
        for p in &self.facts.procs {
            let Some(script) = &p.script else { continue };
            let mut from = 0usize;
            for n in &p.script_nonces {
                let Some((_, t)) = self.sc.find_test(n) else { continue };
                let e = t.expr.as_bytes();
                match find(&script[from..], e) {
                    Some(pos) => {
                        let s = from + pos;
                        let end = s + e.len();
                        let line_start = s == 0 || script[s - 1] == b'\n';
                        let line_end = end == script.len() || script[end] == b'\n';
                        if !line_start || !line_end {
                            out.push(v(
                                "C13",
                                "expr-not-on-own-lines",
                                Some(n),
                                format!("expression of {} is glued to other script text", n),
                            ));
                        }
                        from = end;
                    }
                    None => {
                        out.push(v(
                            "C13",
                            "expr-rewritten",
                            Some(n),
                            format!(
                                "the shell (pid {}) did not receive the expression of test {} as written: {:?}",
                                p.pid,
                                n,
                                Bytes(e.to_vec())
                            ),
                        ));
                    }
                }
                // ... and nothing of the document follows it: in the per-process mode the
                // expression is the end of the script, in the single-script mode only scrut's
                // own divider lines stand between two expressions
                if from > 0 {
                    let rest = &script[from..];
                    let until = p
                        .script_nonces
                        .iter()
                        .filter_map(|m| find(rest, format!("@vs:{}@", m).as_bytes()))
                        .min()
                        .map(|i| rest[..i].iter().rposition(|c| *c == b'\n').map(|q| q + 1).unwrap_or(0))
                        .unwrap_or(rest.len());
                    let foreign = rest[..until].split(|c| *c == b'\n').find(|l| {
                        let l = String::from_utf8_lossy(l);
                        let l = l.trim();
                        !(l.is_empty() || l.starts_with("echo \"") || l.starts_with("1>&2 echo \""))
                    });
                    if let Some(l) = foreign {
                        out.push(v(
                            "C13",
                            "expr-rewritten",
                            Some(n),
                            format!(
                                "after the expression of test {} the shell (pid {}) received text that is not part of it: {:?}",
                                n,
                                p.pid,
                                Bytes(l.to_vec())
                            ),
                        ));
                    }
                }
            }
        }
        // the command ended with an exit code, scrut recorded none
        for (d, j) in self.obs.docs.iter().zip(judgements.iter()) {
            if self.script_mode(&self.sc.docs[d.doc]) {
                continue;
            }
            for tj in &j.tests {
                let (Some(pid), Some(to)) = (tj.pid, d.tests.iter().find(|t| t.nonce == tj.nonce)) else {
                    continue;
                };
                let p = &self.facts.procs[pid as usize];
                let w = self.prog(&tj.nonce);
                let (Some(code), Some(raw), Some(ce)) = (p.exit_code(), &to.raw, &p.comm_end) else {
                    continue;
                };
                if !p.faults.is_empty() || w.has_bg_hold || p.killed.map(|k| p.exit_seq > k.2).unwrap_or(false) {
                    continue;
                }
                // (strictly before: a command that ends at the very instant its limit expires may be
                // reported either way - an exact tie)
                // (... unless no limit was due at that instant: then the "timeout" is spurious)
                let due = p.comm_begin.as_ref().and_then(|cb| cb.2.map(|l| cb.0.saturating_add(l)));
                let ended_before = p
                    .exit
                    .as_ref()
                    .map(|e| e.0 < ce.0 || (e.0 == ce.0 && due.map(|d| ce.0 < d).unwrap_or(true)))
                    .unwrap_or(false);
                let lost = ended_before && (ce.2 == "timed_out" || ce.2.starts_with("err:BrokenPipe"));
                if lost && !matches!(raw.exit, ExitObs::Code { .. }) {
                    out.push(v(
                        "C13",
                        "exit-code-lost",
                        Some(&tj.nonce),
                        format!(
                            "test {} ended on its own with exit code {} at t={}ns, but {:?} was recorded (communication ended with {} at t={}ns)",
                            tj.nonce, code, p.exit.as_ref().unwrap().0, raw.exit, ce.2, ce.0
                        ),
                    ));
                }
            }
        }
        // what was captured of a command that was aborted is the beginning of what it wrote
        for (d, j) in self.obs.docs.iter().zip(judgements.iter()) {
            let main = &self.sc.docs[d.doc];
            if self.script_mode(main) {
                // single-script mode: one capture for the whole script, handed out with the
                // first test case - the beginning of what all commands wrote, in order
                let list = exec_list(self.sc, main);
                let Some(to) = d.tests.first() else { continue };
                let Some(raw) = &to.raw else { continue };
                if !matches!(raw.exit, ExitObs::Timeout { .. }) || list.is_empty() {
                    continue;
                }
                let Some(pid) = j.tests.first().and_then(|t| t.pid) else { continue };
                if !self.facts.procs[pid as usize].faults.is_empty() {
                    continue;
                }
                let eff = self.sc.effective(main, list[0].0, list[0].1);
                if eff.strip_ansi {
                    continue;
                }
                let (mut eo, mut ee) = (vec![], vec![]);
                for (_, t) in &list {
                    let (o, e) = expected_streams(&eff, &self.prog(&t.nonce));
                    eo.extend(o);
                    ee.extend(e);
                }
                let is_prefix = |got: &[u8], want: &[u8]| {
                    let g = if !eff.keep_crlf && got.last() == Some(&b'\r') { &got[..got.len() - 1] } else { got };
                    want.len() >= g.len() && &want[..g.len()] == g
                };
                if !is_prefix(&raw.stdout.0, &eo) || !is_prefix(&raw.stderr.0, &ee) {
                    out.push(v(
                        "C13",
                        "partial-capture-not-a-prefix",
                        Some(&to.nonce),
                        format!(
                            "the script was aborted; captured stdout {:?} stderr {:?} is not the beginning of what its commands wrote: stdout {:?} stderr {:?}",
                            raw.stdout,
                            raw.stderr,
                            Bytes(eo.iter().take(200).cloned().collect()),
                            Bytes(ee.iter().take(200).cloned().collect())
                        ),
                    ));
                }
                continue;
            }
            let list = exec_list(self.sc, main);
            for (k, tj) in j.tests.iter().enumerate() {
                let (Some(pid), Some(to)) = (tj.pid, d.tests.iter().find(|t| t.nonce == tj.nonce)) else {
                    continue;
                };
                let Some(raw) = &to.raw else { continue };
                if !matches!(raw.exit, ExitObs::Timeout { .. }) {
                    continue;
                }
                let p = &self.facts.procs[pid as usize];
                if !p.faults.is_empty() {
                    continue;
                }
                let (td, t) = list[k];
                let eff = self.sc.effective(main, td, t);
                if eff.strip_ansi {
                    continue;
                }
                let w = self.prog(&tj.nonce);
                let (eo, ee) = expected_streams(&eff, &w);
                let is_prefix = |got: &[u8], want: &[u8]| {
                    // a CR whose LF has not been read yet is left as it is
                    let g = if !eff.keep_crlf && got.last() == Some(&b'\r') { &got[..got.len() - 1] } else { got };
                    want.len() >= g.len() && &want[..g.len()] == g
                };
                if !is_prefix(&raw.stdout.0, &eo) || !is_prefix(&raw.stderr.0, &ee) {
                    out.push(v(
                        "C13",
                        "partial-capture-not-a-prefix",
                        Some(&tj.nonce),
                        format!(
                            "test {} was aborted; captured stdout {:?} stderr {:?} is not the beginning of what the command wrote: stdout {:?} stderr {:?}",
                            tj.nonce,
                            raw.stdout,
                            raw.stderr,
                            Bytes(eo),
                            Bytes(ee)
                        ),
                    ));
                }
            }
        }
        // bytes and exit codes
        for (d, j) in self.obs.docs.iter().zip(judgements.iter()) {
            for tj in &j.tests {
                let Some(to) = d.tests.iter().find(|t| t.nonce == tj.nonce) else {
                    continue;
                };
                // a test case that never reached a shell wrote nothing: whatever is recorded for it
                // carries no bytes
                if tj.pid.is_none() && !tj.detached && self.facts.fault_kinds.is_empty() {
                    if let Some(raw) = &to.raw {
                        if !raw.stdout.0.is_empty() || !raw.stderr.0.is_empty() {
                            out.push(v(
                                "C13",
                                "bytes-differ",
                                Some(&tj.nonce),
                                format!(
                                    "test {} never ran, yet it is recorded with stdout {:?} stderr {:?}",
                                    tj.nonce, raw.stdout, raw.stderr
                                ),
                            ));
                        }
                    }
                }
                let (Some(raw), Some((eo, ee, code))) = (&to.raw, &tj.raw) else {
                    continue;
                };
                if !tj.exact {
                    continue;
                }
                // (through the JSON report only text survives unchanged)
                if to.raw_lossy && !(eo.is_ascii() && ee.is_ascii()) {
                    continue;
                }
                match &raw.exit {
                    ExitObs::Code { code: c } => {
                        if c != code {
                            out.push(v(
                                "C13",
                                "wrong-exit-code-recorded",
                                Some(&tj.nonce),
                                format!("recorded exit code {} but the command ended with {}", c, code),
                            ));
                        }
                    }
                    other => {
                        out.push(v(
                            "C13",
                            "exit-code-lost",
                            Some(&tj.nonce),
                            format!("command ended with {} but {:?} was recorded", code, other),
                        ));
                        continue;
                    }
                }
                let (_, tdoc_t) = match self.sc.find_test(&tj.nonce) {
                    Some(x) => x,
                    None => continue,
                };
                let main = &self.sc.docs[d.doc];
                let tdoc = self.sc.docs.iter().find(|dd| dd.tests.iter().any(|t| t.nonce == tj.nonce)).unwrap_or(main);
                let eff = self.sc.effective(main, tdoc, tdoc_t);
                if eff.strip_ansi {
                    // positive half only for the generator's plain SGR sequences; in
                    // single-script mode the option is not available per test case, and the
                    // property only says when sequences may be removed, so both are accepted
                    let so = strip_sgr(eo);
                    let se = strip_sgr(ee);
                    let untouched = &raw.stdout.0 == eo && &raw.stderr.0 == ee;
                    let script = self.script_mode(main);
                    if (raw.stdout.0 != so || raw.stderr.0 != se) && !(script && untouched) {
                        out.push(v(
                            "C13",
                            "bytes-differ",
                            Some(&tj.nonce),
                            format!(
                                "with strip_ansi: stdout {:?} / stderr {:?}, expected {:?} / {:?}",
                                raw.stdout,
                                raw.stderr,
                                Bytes(so),
                                Bytes(se)
                            ),
                        ));
                    }
                    continue;
                }
                if &raw.stdout.0 != eo || &raw.stderr.0 != ee {
                    let class = if raw.stdout.0.len() + raw.stderr.0.len() == eo.len() + ee.len() && &raw.stdout.0 == ee {
                        "streams-swapped"
                    } else {
                        "bytes-differ"
                    };
                    out.push(v(
                        "C13",
                        class,
                        Some(&tj.nonce),
                        format!(
                            "test {}: recorded stdout {:?} stderr {:?}; the command wrote (after the documented transformations) stdout {:?} stderr {:?}",
                            tj.nonce,
                            raw.stdout,
                            raw.stderr,
                            Bytes(eo.clone()),
                            Bytes(ee.clone())
                        ),
                    ));
                }
            }
        }
        // whatever the history looked like (reading in rounds, pauses, background writers): a
        // test case that scrut records WITH an exit code carries everything its command wrote -
        // only a result without exit code (timeout, no exit code) may come with less
        for (d, j) in self.obs.docs.iter().zip(judgements.iter()) {
            let main = &self.sc.docs[d.doc];
            if self.script_mode(main) {
                continue;
            }
            for tj in &j.tests {
                if tj.exact || tj.detached {
                    continue;
                }
                let (Some(pid), Some(to)) = (tj.pid, d.tests.iter().find(|t| t.nonce == tj.nonce)) else { continue };
                let Some(raw) = &to.raw else { continue };
                let ExitObs::Code { code: recorded } = &raw.exit else { continue };
                let p = &self.facts.procs[pid as usize];
                let complete = p.cmds.first().map(|c| c.complete).unwrap_or(false);
                let killed_first = p.killed.map(|k| p.exit_seq > k.2).unwrap_or(false);
                if !p.faults.is_empty() || !complete || killed_first || p.exit_code() != Some(*recorded) {
                    continue;
                }
                let Some((tdoc, t)) = self.sc.find_test(&tj.nonce) else { continue };
                let eff = self.sc.effective(main, tdoc, t);
                if eff.detached || eff.strip_ansi {
                    continue;
                }
                let w = self.prog(&tj.nonce);
                if w.dies.is_some() || w.hangs {
                    continue;
                }
                let (eo, ee) = expected_streams(&eff, &w);
                if to.raw_lossy && !(eo.is_ascii() && ee.is_ascii()) {
                    continue;
                }
                if raw.stdout.0 != eo || raw.stderr.0 != ee {
                    out.push(v(
                        "C13",
                        "bytes-differ",
                        Some(&tj.nonce),
                        format!(
                            "test {} is recorded with exit code {} but not with everything its command wrote: recorded stdout {:?} stderr {:?}; written (after the documented transformations) stdout {:?} stderr {:?}",
                            tj.nonce,
                            recorded,
                            raw.stdout,
                            raw.stderr,
                            Bytes(eo),
                            Bytes(ee)
                        ),
                    ));
                }
            }
        }
    }

    // -------------------------------------------------------------- C14 (timing)

    /// T0 of each executing document: time/ovh of the first parent event in its window
    fn doc_t0(&self, first_pid: u32, prev_last_seq: u64) -> (u64, u64) {
        let p = &self.facts.procs[first_pid as usize];
        let mut best = (p.spawn_t, p.spawn_ovh);
        for (seq, t, ovh) in &self.facts.clock_reads {
            if *seq > prev_last_seq && *seq < p.spawn_seq {
                best = (*t, *ovh);
                break;
            }
        }
        // a sleep (wait) before the first spawn also belongs to the window
        for (seq, t, _) in &self.facts.sleeps {
            if *seq > prev_last_seq && *seq < p.spawn_seq && *t < best.0 {
                best = (*t, best.1);
            }
        }
        best
    }

    pub fn check_timing(&self, judgements: &[DocJudgement], out: &mut Vec<Violation>) {
        let mut prev_last_seq = 0u64;
        if let Some(site) = &self.facts.hang {
            // scrut would block forever: acceptable only if nothing bounds the wait
            let mut bounded = false;
            for d in &self.obs.docs {
                let main = &self.sc.docs[d.doc];
                if self.sc.doc_limit(main).is_some() {
                    bounded = true;
                }
                for (td, t) in exec_list(self.sc, main) {
                    if self.sc.effective(main, td, t).timeout_ns.is_some() {
                        // only a bound for the test it is set on; be conservative: flag only
                        // when the document limit exists
                    }
                }
            }
            if bounded && site != "drop(Popen)" {
                out.push(v(
                    "C14",
                    "waits-forever-despite-limit",
                    None,
                    format!("scrut blocks forever in {} although a document limit is in force", site),
                ));
            }
        }
        for (d, j) in self.obs.docs.iter().zip(judgements.iter()) {
            let main = &self.sc.docs[d.doc];
            let list = exec_list(self.sc, main);
            let dlimit = self.sc.doc_limit(main);
            let pids: Vec<u32> = j.tests.iter().filter_map(|t| t.pid).collect();
            let Some(&first_pid) = pids.iter().min() else { continue };
            let (t0, ovh0) = self.doc_t0(first_pid, prev_last_seq);
            for pid in &pids {
                let p = &self.facts.procs[*pid as usize];
                let last = p
                    .spawn_seq
                    .max(p.script_seq)
                    .max(p.comm_end.as_ref().map(|c| c.5).unwrap_or(0))
                    .max(p.parent_close.map(|c| c.1).unwrap_or(0));
                prev_last_seq = prev_last_seq.max(last);
            }
            // the document's limit ran out while scrut itself was waiting (`wait:`) and test cases
            // were still to come: the document has to be reported as failed - a timeout somewhere
            // in it - not as a run of skipped test cases
            if let (Some(dl), false) = (dlimit, self.script_mode(main)) {
                let deadline = t0.saturating_add(dl);
                let last_seq_of_doc = pids.iter().map(|p| self.facts.procs[*p as usize].spawn_seq).max().unwrap_or(0);
                // (only a wait of THIS document: before the next process of the run is started)
                let next_spawn_seq = self.facts.procs.iter().map(|p| p.spawn_seq).filter(|s| *s > last_seq_of_doc).min().unwrap_or(u64::MAX);
                let crossed = self.facts.sleeps.iter().any(|(seq, st, ns)| {
                    *seq > last_seq_of_doc && *seq < next_spawn_seq && *st < deadline && st.saturating_add(*ns) >= deadline
                });
                // (and nothing else had stopped the document already)
                let pending = j.stop.is_none() && j.tests.iter().any(|t| t.pid.is_none() && !t.detached);
                let reported_timeout = match self.sc.tier {
                    Tier::Lib => matches!(d.exec, ExecResult::Timeout { .. }),
                    Tier::Cli => d.tests.iter().any(|t| t.report == Report::Timeout),
                };
                let have_report = match self.sc.tier {
                    Tier::Lib => self.obs.sim_abort.is_none() && self.obs.panic.is_none(),
                    Tier::Cli => !self.sc.pretty && self.sc.cli.command.is_none() && matches!(self.obs.exit_status, Some(0) | Some(50)) && self.obs.sim_abort.is_none(),
                };
                if crossed && pending && have_report && !reported_timeout && self.facts.fault_kinds.is_empty() {
                    out.push(v(
                        "C14",
                        "timeout-not-reported",
                        None,
                        format!(
                            "document {}: its limit of {}ns ran out at t={}ns while scrut was waiting and test cases were still to come, but no timeout is reported for it",
                            main.path, dl, deadline
                        ),
                    ));
                }
            }
            let script = self.script_mode(main);
            if script {
                // per-test limits are not available in single-script mode: refusing the document
                // is fine, silently running a command past its limit is not
                for (k, tj) in j.tests.iter().enumerate() {
                    let (Some(pid), (td, t)) = (tj.pid, list[k]) else { continue };
                    let Some(lim) = self.sc.effective(main, td, t).timeout_ns else { continue };
                    let p = &self.facts.procs[pid as usize];
                    let Some(c) = p.cmds.iter().find(|c| c.nonce == tj.nonce) else { continue };
                    let until = c.end_t.or(p.comm_end.as_ref().map(|e| e.0)).unwrap_or(c.start_t);
                    let reported = d.tests.iter().find(|x| x.nonce == tj.nonce).map(|x| x.report.clone());
                    if until.saturating_sub(c.start_t) > lim + 2 * MS && reported != Some(Report::Timeout) {
                        out.push(v(
                            "C14",
                            "ran-past-limit",
                            Some(&tj.nonce),
                            format!(
                                "single-script mode: test {} has a timeout of {}ns, ran for {}ns and was reported {:?}",
                                tj.nonce,
                                lim,
                                until - c.start_t,
                                reported
                            ),
                        ));
                    }
                }
            }
            let mut seen = BTreeSet::new();
            for (k, tj) in j.tests.iter().enumerate() {
                let Some(pid) = tj.pid else { continue };
                if !seen.insert(pid) {
                    continue;
                }
                let p = &self.facts.procs[pid as usize];
                let (td, t) = list[k];
                let eff = self.sc.effective(main, td, t);
                let t_i = if script { None } else { eff.timeout_ns };
                let Some((cb_t, _cb_ovh, _)) = p.comm_begin else { continue };
                // (after the pipes reached EOF scrut still waits for the process itself)
                let Some((x, x_ovh, res)) = p.stopped_waiting() else {
                    continue;
                };
                // earliest and latest legitimate abort instants
                let a_min = min_opt(t_i.map(|t| p.spawn_t.saturating_add(t)), dlimit.map(|d| t0.saturating_add(d)));
                let a_max = min_opt(t_i.map(|t| cb_t.saturating_add(t)), dlimit.map(|d| t0.saturating_add(d)));
                // (20 ms of grace on top of the measured overhead: the properties do not fix a granularity)
                let slack = (x_ovh - ovh0.min(x_ovh)) + 20 * MS;
                if std::env::var("VSIM_DEBUG_TIMING").is_ok() {
                    eprintln!("timing: pid={} res={} x={} a_min={:?} a_max={:?} slack={} t0={} t_i={:?} dlimit={:?}", pid, res, x, a_min, a_max, slack, t0, t_i, dlimit);
                }
                if res == "timed_out" {
                    match a_min {
                        None => out.push(v(
                            "C14",
                            "timeout-without-limit",
                            Some(&tj.nonce),
                            format!("test {} was aborted at t={}ns but no limit applies", tj.nonce, x),
                        )),
                        Some(a) => {
                            if x + 2 * MS < a {
                                out.push(v(
                                    "C14",
                                    "aborted-before-limit",
                                    Some(&tj.nonce),
                                    format!(
                                        "test {} was aborted at t={}ns, {}ns before the earliest applicable limit (t0={}, spawn={}, per-test={:?}, document={:?})",
                                        tj.nonce,
                                        x,
                                        a - x,
                                        t0,
                                        p.spawn_t,
                                        t_i,
                                        dlimit
                                    ),
                                ));
                            }
                        }
                    }
                }
                // A read round that ran out of time exactly when the limit ran out - the pipes were
                // still open: somebody may still write - is the limit being reached, whatever scrut
                // learns about the shell afterwards (a shell that has ended while a job it started
                // keeps the test case's output open has not completed the test case). Only a round
                // that ends BEFORE the limit is "reading in short rounds".
                if res == "ok" && !script && p.faults.is_empty() && !tj.detached {
                    if let (Some(ce), Some(a)) = (p.comm_end.as_ref(), a_min) {
                        let reported = d.tests.iter().find(|x| x.nonce == tj.nonce).map(|x| x.report.clone());
                        let at_limit = ce.2 == "timed_out" && ce.0 + 2 * MS >= a && ce.0 >= cb_t;
                        if at_limit && matches!(reported, Some(Report::Success)) {
                            out.push(v(
                                "C14",
                                "timeout-not-reported",
                                Some(&tj.nonce),
                                format!(
                                    "test {}: its limit ran out at t={}ns while scrut was still reading its output (t0={}, per-test={:?}, document={:?}), yet it is reported as succeeded",
                                    tj.nonce, ce.0, t0, t_i, dlimit
                                ),
                            ));
                        }
                    }
                }
                if res == "ok" || res == "timed_out" {
                    // (a `wait` is not interruptible: when the limit had already expired by the time
                    // scrut started to communicate, stopping at once is all that can be asked)
                    if let Some(a) = a_max.map(|a| a.max(cb_t)) {
                        // The time scrut spends READING is no excuse for being late: a command that
                        // is still running - and still writing - when its limit expires has to be
                        // cut off, however busy that keeps scrut. Only a stall of scrut itself (and
                        // a handful of system calls) is beyond its control.
                        // (a stall anywhere since the document started counts: the time that is
                        // left is worked out before the process is started, and a stall between
                        // the two is just as much beyond scrut's control)
                        let stalled: u64 = self.facts.stalls.iter().filter(|(_, st, _)| *st >= t0 && *st <= x).map(|s| s.2).sum();
                        let strict = 20 * MS + stalled + 64 * self.sc.sim.swarm.syscall_cost_ns;
                        let busy_until = p.exit.as_ref().map(|e| e.0).unwrap_or(x);
                        if res == "ok" && x > a.saturating_add(strict) && busy_until > a.saturating_add(strict) && x <= a.saturating_add(slack) {
                            out.push(v(
                                "C14",
                                "ran-past-limit",
                                Some(&tj.nonce),
                                format!(
                                    "test {} was still running (until t={}ns) and scrut still reading (until t={}ns) {}ns after its limit expired (t0={}, comm_begin={}, per-test={:?}, document={:?}); a limit applies whether or not there is output to read",
                                    tj.nonce,
                                    busy_until,
                                    x,
                                    x - a,
                                    t0,
                                    cb_t,
                                    t_i,
                                    dlimit
                                ),
                            ));
                        }
                        if x > a.saturating_add(slack) {
                            out.push(v(
                                "C14",
                                "ran-past-limit",
                                Some(&tj.nonce),
                                format!(
                                    "scrut kept waiting for test {} until t={}ns, {}ns past the limit (t0={}, comm_begin={}, per-test={:?}, document={:?}, slack={})",
                                    tj.nonce,
                                    x,
                                    x - a,
                                    t0,
                                    cb_t,
                                    t_i,
                                    dlimit,
                                    slack
                                ),
                            ));
                        }
                    }
                }
            }
        }
    }

    // -------------------------------------------------------------- C20 (history)

    pub fn check_history(&self, judgements: &[DocJudgement], out: &mut Vec<Violation>) {
        // (a document given with -P / -A on the command line runs with EVERY main document of
        // the run: its test cases are executed once per main document)
        let mains = self.sc.docs.iter().filter(|d| d.main).count();
        let shared: std::collections::BTreeMap<&str, bool> = self
            .sc
            .docs
            .iter()
            .filter(|d| !d.main)
            .filter_map(|d| {
                let pre = self.sc.cli.prepend.iter().any(|p| *p == d.path);
                let app = self.sc.cli.append.iter().any(|p| *p == d.path);
                if pre || app { Some((d, pre)) } else { None }
            })
            .flat_map(|(d, pre)| d.tests.iter().map(move |t| (t.nonce.as_str(), pre)))
            .collect();
        if mains > 1 {
            let clean_run = matches!(self.obs.exit_status, Some(0) | Some(50)) && self.facts.fault_kinds.is_empty() && judgements.iter().all(|j| !j.run_fail && j.stop.is_none());
            for (n, prepended) in &shared {
                let got = self.facts.delivered.get(*n).map(|p| p.len()).unwrap_or(0);
                if *prepended && clean_run && got < mains {
                    out.push(v(
                        "C20",
                        "not-executed",
                        Some(n),
                        format!("test {} of a document given with -P was handed to a shell {} times in a run of {} documents: it runs in front of each of them", n, got, mains),
                    ));
                }
            }
        }
        // at most once
        for (n, pids) in &self.facts.delivered {
            if pids.len() > 1 && !(mains > 1 && shared.contains_key(n.as_str()) && pids.len() <= mains) {
                out.push(v(
                    "C20",
                    "executed-more-than-once",
                    Some(n),
                    format!("test {} was handed to a shell {} times (pids {:?})", n, pids.len(), pids),
                ));
            }
        }
        // ... and at most once as the shells tell it: what a shell actually ran (it reads a script
        // it was given as a file piece by piece - another process may have rewritten the file by
        // then), not only what scrut handed over
        {
            let mut ran: std::collections::BTreeMap<&str, Vec<u32>> = Default::default();
            for (pid, p) in self.facts.procs.iter().enumerate() {
                for c in &p.cmds {
                    let e = ran.entry(c.nonce.as_str()).or_default();
                    if !e.contains(&(pid as u32)) {
                        e.push(pid as u32);
                    }
                }
            }
            for (n, pids) in &ran {
                if pids.len() > 1 && self.facts.delivered.get(*n).map(|d| d.len() <= 1).unwrap_or(true) && !(mains > 1 && shared.contains_key(*n) && pids.len() <= mains) {
                    out.push(v(
                        "C20",
                        "executed-more-than-once",
                        Some(n),
                        format!("test {} was run by {} shells (pids {:?}), handed over to {:?}", n, pids.len(), pids, self.facts.delivered.get(*n)),
                    ));
                }
            }
            // a shell that was handed one test case and ran another one instead
            for (pid, p) in self.facts.procs.iter().enumerate() {
                if p.script_nonces.len() != 1 {
                    continue;
                }
                let mine = &p.script_nonces[0];
                if let Some(c) = p.cmds.iter().find(|c| &c.nonce != mine) {
                    if !p.cmds.iter().any(|c| &c.nonce == mine) {
                        for prop in ["C20", "C13"] {
                            out.push(v(
                                prop,
                                if prop == "C20" { "not-executed" } else { "expression-not-run-verbatim" },
                                Some(mine),
                                format!("the shell (pid {}) that was handed test {} ran test {} instead", pid, mine, c.nonce),
                            ));
                        }
                    }
                }
            }
        }
        // nothing runs that was not given: neither on the command line nor by prepend / append
        {
            let mut given: std::collections::BTreeSet<&str> = Default::default();
            for m in self.sc.docs.iter().filter(|d| d.main) {
                for (_, t) in exec_list(self.sc, m) {
                    given.insert(t.nonce.as_str());
                }
            }
            for n in self.facts.delivered.keys() {
                if !given.contains(n.as_str()) {
                    out.push(v(
                        "C20",
                        "executed-not-given",
                        Some(n),
                        format!("test {} was handed to a shell, but its document is not part of this run", n),
                    ));
                }
            }
        }
        // (C15: a document that was skipped leaves the documents after it alone)
        let mut skipped_before = false;
        for (d, j) in self.obs.docs.iter().zip(judgements.iter()) {
            let main = &self.sc.docs[d.doc];
            let list = exec_list(self.sc, main);
            if skipped_before && !j.run_fail && self.obs.exit_status != Some(1) {
                for tj in &j.tests {
                    let n = self.facts.delivered.get(&tj.nonce).map(|p| p.len()).unwrap_or(0);
                    if tj.must_run == Some(true) && n == 0 {
                        out.push(v(
                            "C15",
                            "other-document-affected-by-skip",
                            Some(&tj.nonce),
                            format!("test {} of {} never ran: an earlier document of the run was skipped, which concerns that document only", tj.nonce, main.path),
                        ));
                    }
                }
            }
            if matches!(j.stop, Some(Stop::Skip(_))) {
                skipped_before = true;
            }
            // order: the sequence of delivery must follow document order
            let mut order: Vec<(u64, usize, String)> = vec![];
            for (k, (_, t)) in list.iter().enumerate() {
                if let Some(pids) = self.facts.delivered.get(&t.nonce) {
                    let p = &self.facts.procs[pids[0] as usize];
                    let pos = p.script_nonces.iter().position(|n| n == &t.nonce).unwrap_or(0);
                    order.push((p.script_seq * 1000 + pos as u64, k, t.nonce.clone()));
                }
            }
            let mut sorted = order.clone();
            sorted.sort();
            let ks: Vec<usize> = sorted.iter().map(|x| x.1).collect();
            if ks.windows(2).any(|w| w[0] > w[1]) {
                out.push(v(
                    "C20",
                    "out-of-order",
                    None,
                    format!(
                        "document {}: test cases were executed in the order {:?}",
                        main.path,
                        sorted.iter().map(|x| x.2.clone()).collect::<Vec<_>>()
                    ),
                ));
            }
            for tj in &j.tests {
                let n = self.facts.delivered.get(&tj.nonce).map(|p| p.len()).unwrap_or(0);
                match tj.must_run {
                    Some(true) if n == 0 => out.push(v(
                        "C20",
                        "not-executed",
                        Some(&tj.nonce),
                        format!("test {} of {} was never handed to a shell although nothing stopped the document", tj.nonce, main.path),
                    )),
                    Some(false) if n > 0 => {
                        let (prop, class) = match &j.stop {
                            Some(Stop::Timeout(_)) => ("C14", "executed-after-timeout"),
                            Some(Stop::Skip(_)) => ("C15", "executed-after-skip"),
                            _ => ("C20", "executed-after-stop"),
                        };
                        out.push(v(
                            prop,
                            class,
                            Some(&tj.nonce),
                            format!("test {} was executed although the document had stopped ({:?})", tj.nonce, j.stop),
                        ))
                    }
                    _ => {}
                }
            }
        }
    }
}

fn min_opt(a: Option<u64>, b: Option<u64>) -> Option<u64> {
    match (a, b) {
        (Some(a), Some(b)) => Some(a.min(b)),
        (a, None) => a,
        (None, b) => b,
    }
}

/// remove `ESC [ digits;... m`
pub fn strip_sgr(b: &[u8]) -> Vec<u8> {
    let mut out = Vec::with_capacity(b.len());
    let mut i = 0;
    while i < b.len() {
        if b[i] == 0x1b && i + 1 < b.len() && b[i + 1] == b'[' {
            let mut k = i + 2;
            while k < b.len() && (b[k].is_ascii_digit() || b[k] == b';') {
                k += 1;
            }
            if k < b.len() && b[k] == b'm' {
                i = k + 1;
                continue;
            }
        }
        out.push(b[i]);
        i += 1;
    }
    out
}

/// Evaluate every oracle that applies to this tier; the caller filters by property.
pub fn judge(sc: &Scenario, obs: &Observation) -> (Vec<Violation>, Facts, Vec<DocJudgement>) {
    let (mut out, facts, judgements) = judge_one(sc, obs, obs.duo.is_some());
    if let (Some(duo), Some(partner)) = (&obs.duo, &sc.partner) {
        crate::oracle_run::check_duo(sc, partner, obs, duo, &facts, &mut out);
    }
    (out, facts, judgements)
}

pub fn judge_one(sc: &Scenario, obs: &Observation, duo: bool) -> (Vec<Violation>, Facts, Vec<DocJudgement>) {
    let facts = extract(sc, &obs.log);
    let ctx = Ctx { sc, obs, facts: &facts, duo };
    let mut out = vec![];
    let judgements = ctx.check_reports(&mut out);
    if let Some(p) = &obs.panic {
        // (every property that speaks about what scrut reports)
        for prop in ["C05", "C13", "C14", "C15", "C20"] {
            out.push(v(prop, "scrut-panicked", None, format!("scrut panicked: {}", p)));
        }
    }
    if let Some(sig) = obs.exit_signal {
        for prop in ["C05", "C13", "C20"] {
            out.push(v(prop, "scrut-crashed", None, format!("the scrut process was killed by signal {} ({})", sig, obs.stderr.lines().last().unwrap_or(""))));
        }
    }
    if obs.sim_abort.as_deref() == Some("event_cap") {
        out.push(v("C14", "scrut-does-not-terminate", None, "event cap reached".into()));
    }
    ctx.check_bytes(&judgements, &mut out);
    ctx.check_timing(&judgements, &mut out);
    ctx.check_history(&judgements, &mut out);
    crate::oracle_run::check_run(&ctx, &judgements, &mut out);
    let _ = BTreeMap::<u8, u8>::new();
    (out, facts, judgements)
}
