//! Scenario generation: systematic lanes (small cross products, enumerated completely)
//! and random swarm lanes. Everything is derived from one seed (DESIGN §5.2).

use std::collections::BTreeMap;

use scrut::verif_sim::scenario::*;
use scrut::verif_sim::world::Rng;

use crate::oracle::exec_list;
use crate::oracle::expected_streams;
use crate::scn::*;

pub const SEC: u64 = 1_000_000_000;
pub const MS: u64 = 1_000_000;

pub struct G {
    pub rng: Rng,
}

/// what a test case is meant to do
#[derive(Clone, Debug, PartialEq, Eq)]
pub enum Fate {
    Pass,
    /// ends with `code`, document expects `expected`
    Code { code: i32, expected: Option<i32>, exit_shell: bool },
    WrongOutput,
    WrongCodeAndOutput { code: i32 },
    /// killed by `sig` after `after_lines` of its output
    Die { sig: u8, after_lines: usize, no_expectations: bool },
    /// writes all its lines, is then killed by `sig`; the document expects exit code `expected`
    /// (128 + sig is what a parent shell would have reported - scrut has no exit code at all)
    DieExpecting { sig: u8, expected: i32 },
    /// runs for `ns` then passes
    Slow { ns: u64 },
    Hang,
    Detached,
    /// finishes, but a grandchild keeps the pipes open for `ns`
    BgHold { ns: u64 },
    /// finishes at once; a grandchild that holds the pipes writes one more line after `ns` and
    /// goes away (`(sleep 1.5; echo late) & echo early`): the line belongs to this test case's
    /// output - scrut reads until every writer has closed the pipes
    BgLate { ns: u64 },
    /// closes stdout and stderr (`exec >&- 2>&-`) and only then runs on for `ns` (None: forever)
    CloseThenLinger { ns: Option<u64> },
    /// works for `before_ns`, closes stdout and stderr, runs on for `after_ns`, then ends with 0
    LateClose { before_ns: u64, after_ns: u64 },
    /// closes ONE of its output streams (`exec >&-` / `exec 2>&-`) after its first lines, runs on
    /// for `ns` and then writes one more line to the other stream
    CloseOne { fd: u8, ns: u64 },
    /// its lines trickle out, one every `every_ns`, alternating between the streams
    Trickle { every_ns: u64, lines: usize },
    /// writes to stderr only, a line every 200 ms for `ns`, and one line to stdout at the very end
    StderrLong { ns: u64 },
    /// passes; its first output lines begin with `>` (`>>> prompt`, `>quoted`): as expectation
    /// lines they follow the command directly and must not be taken for continuation lines
    GtLines,
    /// ends with `code` (the document expects none, i.e. 0); its last output lines END in `[n]`
    /// (`rows affected [3]`): expectations, not the line that states the expected exit code
    BracketLines { code: i32 },
}

#[derive(Clone, Debug)]
pub struct Plan {
    pub fate: Fate,
    pub cfg: TestCfg,
    pub lines: usize,
    pub title_tag: String,
}

impl Plan {
    pub fn new(fate: Fate) -> Plan {
        Plan {
            fate,
            cfg: TestCfg::default(),
            lines: 2,
            title_tag: String::new(),
        }
    }
    pub fn cfg(mut self, c: TestCfg) -> Plan {
        self.cfg = c;
        self
    }
}

impl G {
    pub fn new(seed: u64) -> G {
        G { rng: Rng::new(seed) }
    }
    pub fn below(&mut self, n: u64) -> u64 {
        self.rng.below(n)
    }
    pub fn pick<'a, T>(&mut self, xs: &'a [T]) -> &'a T {
        &xs[self.rng.below(xs.len() as u64) as usize]
    }
    pub fn chance(&mut self, per_cent: u64) -> bool {
        self.rng.below(100) < per_cent
    }
    pub fn nonce(&mut self) -> String {
        format!("{:012x}", self.rng.next_u64() & 0xffff_ffff_ffff)
    }

    /// Build a test case and its program from a plan. Expectations are filled in later
    /// (they depend on the effective configuration).
    pub fn test(&mut self, plan: &Plan, programs: &mut BTreeMap<String, Vec<Op>>) -> Test {
        let nonce = self.nonce();
        let tag = &nonce[..6];
        let mut ops = vec![];
        let n = plan.lines;
        let out_line = |fd: u8, k: usize| Op::Out {
            fd,
            data: format!("{}{}-{}\n", if fd == 1 { "o" } else { "e" }, tag, k).as_str().into(),
        };
        let mut emit = |ops: &mut Vec<Op>, upto: usize, from: usize| {
            for k in from..upto {
                ops.push(out_line(1, k));
                ops.push(out_line(2, k));
            }
        };
        let mut expected_code = None;
        let mut expect_match = true;
        let mut cfg = plan.cfg.clone();
        let mut no_expectations = false;
        match &plan.fate {
            Fate::Pass => {
                emit(&mut ops, n, 0);
                ops.push(Op::Status { code: 0 });
            }
            Fate::Code { code, expected, exit_shell } => {
                emit(&mut ops, n, 0);
                expected_code = *expected;
                ops.push(if *exit_shell {
                    Op::ExitShell { code: *code }
                } else {
                    Op::Status { code: *code }
                });
            }
            Fate::WrongOutput => {
                emit(&mut ops, n, 0);
                expect_match = false;
                ops.push(Op::Status { code: 0 });
            }
            Fate::WrongCodeAndOutput { code } => {
                emit(&mut ops, n, 0);
                expect_match = false;
                ops.push(Op::Status { code: *code });
            }
            Fate::Die {
                sig,
                after_lines,
                no_expectations: ne,
            } => {
                emit(&mut ops, (*after_lines).min(n), 0);
                ops.push(Op::Die { sig: *sig });
                no_expectations = *ne;
            }
            Fate::DieExpecting { sig, expected } => {
                emit(&mut ops, n, 0);
                ops.push(Op::Die { sig: *sig });
                expected_code = Some(*expected);
            }
            Fate::Slow { ns } => {
                emit(&mut ops, n / 2, 0);
                ops.push(Op::Sleep { ns: *ns });
                emit(&mut ops, n, n / 2);
                ops.push(Op::Status { code: 0 });
            }
            Fate::Hang => {
                emit(&mut ops, n / 2, 0);
                ops.push(Op::Hang);
            }
            Fate::Detached => {
                cfg.detached = Some(true);
                ops.push(Op::Sleep { ns: 50 * MS });
                ops.push(Op::Status { code: 0 });
                no_expectations = true;
            }
            Fate::CloseThenLinger { ns } => {
                emit(&mut ops, n, 0);
                ops.push(Op::CloseFd { fd: 1 });
                ops.push(Op::CloseFd { fd: 2 });
                match ns {
                    Some(ns) => {
                        ops.push(Op::Sleep { ns: *ns });
                        ops.push(Op::Status { code: 0 });
                    }
                    None => ops.push(Op::Hang),
                }
            }
            Fate::BracketLines { code } => {
                for text in [format!("{}-a\n", tag), format!("items {} [{}]\n", tag, code), format!("{}-z\n", tag)] {
                    ops.push(Op::Out { fd: 1, data: text.as_str().into() });
                    ops.push(Op::Out { fd: 2, data: text.as_str().into() });
                }
                ops.push(Op::Status { code: *code });
            }
            Fate::GtLines => {
                for (fd, text) in [(1u8, format!(">>>{}-a\n", tag)), (1, format!(">{}-b\n", tag)), (2, format!(">={}-e\n", tag)), (1, format!("{}-c\n", tag))] {
                    ops.push(Op::Out { fd, data: text.as_str().into() });
                }
                ops.push(Op::Status { code: 0 });
            }
            Fate::CloseOne { fd, ns } => {
                emit(&mut ops, n, 0);
                ops.push(Op::CloseFd { fd: *fd });
                ops.push(Op::Sleep { ns: *ns });
                let other = if *fd == 1 { 2 } else { 1 };
                ops.push(out_line(other, n));
                ops.push(Op::Status { code: 0 });
            }
            Fate::Trickle { every_ns, lines } => {
                for k in 0..*lines {
                    ops.push(Op::Sleep { ns: *every_ns });
                    ops.push(out_line(if k % 2 == 0 { 1 } else { 2 }, k));
                }
                ops.push(Op::Status { code: 0 });
            }
            Fate::StderrLong { ns } => {
                let mut t = 0;
                let mut k = 0;
                while t < *ns {
                    ops.push(out_line(2, k));
                    ops.push(Op::Sleep { ns: 200 * MS });
                    t += 200 * MS;
                    k += 1;
                }
                ops.push(out_line(1, k));
                ops.push(Op::Status { code: 0 });
            }
            Fate::LateClose { before_ns, after_ns } => {
                emit(&mut ops, n, 0);
                ops.push(Op::Sleep { ns: *before_ns });
                ops.push(Op::CloseFd { fd: 1 });
                ops.push(Op::CloseFd { fd: 2 });
                ops.push(Op::Sleep { ns: *after_ns });
                ops.push(Op::Status { code: 0 });
            }
            Fate::BgHold { ns } => {
                emit(&mut ops, n, 0);
                ops.push(Op::Bg {
                    hold: true,
                    life_ns: *ns,
                    out_fd: 1,
                    out: Bytes(vec![]),
                });
                ops.push(Op::Status { code: 0 });
            }
            Fate::BgLate { ns } => {
                emit(&mut ops, n, 0);
                ops.push(Op::Bg {
                    hold: true,
                    life_ns: *ns,
                    out_fd: if n % 2 == 0 { 1 } else { 2 },
                    out: format!("{}-late\n", tag).as_str().into(),
                });
                ops.push(Op::Status { code: 0 });
            }
        }
        programs.insert(nonce.clone(), ops);
        Test {
            title: format!("T{} {}", plan.title_tag, nonce),
            // (every fifth expression carries text that is not ASCII, a zero-width no-break
            // space - the byte-order mark, when it stands at the start of a file - included)
            expr: if self.rng.below(5) == 0 {
                format!("vsim-cmd @vs:{}@ run {}gr{}{}e {} @ve:{}@", nonce, '\u{feff}', '\u{fc}', '\u{df}', '\u{feff}', nonce)
            } else {
                format!("vsim-cmd @vs:{}@ run @ve:{}@", nonce, nonce)
            },
            nonce,
            expected_code,
            expectations: if no_expectations { vec![] } else { vec!["?".into()] },
            expect_match,
            cfg,
        }
    }
}

fn line_expectations(stream: &[u8]) -> Option<Vec<String>> {
    let mut out = vec![];
    if stream.is_empty() {
        return Some(out);
    }
    let text = std::str::from_utf8(stream).ok()?;
    let ends_nl = text.ends_with('\n');
    let body = if ends_nl { &text[..text.len() - 1] } else { text };
    let parts: Vec<&str> = body.split('\n').collect();
    for (i, l) in parts.iter().enumerate() {
        // (`>` is an ordinary character of an expectation unless `> ` starts the line; blanks and
        // square brackets are ordinary too, as long as the line is not `[n]` alone)
        let safe = !l.is_empty()
            && l.bytes().all(|c| c.is_ascii_alphanumeric() || matches!(c, b'-' | b'_' | b'.' | b'>' | b'=' | b' ' | b'[' | b']'))
            && !l.starts_with('-')
            && !l.starts_with("> ")
            && !l.starts_with(' ')
            && !l.ends_with(' ')
            && !l.starts_with('[');
        if !safe {
            return None;
        }
        if i + 1 == parts.len() && !ends_nl {
            out.push(format!("{} (no-eol)", l));
        } else {
            out.push(l.to_string());
        }
    }
    Some(out)
}

/// Fill in the expectation lines of every test whose placeholder is `?`: the exact lines of
/// the stream its effective configuration selects (accept), or a perturbation (reject).
pub fn fill_expectations(sc: &mut Scenario, g: &mut G) {
    let mut fills: BTreeMap<String, (Vec<String>, bool)> = BTreeMap::new();
    for main in sc.docs.iter().filter(|d| d.main) {
        for (tdoc, t) in exec_list(sc, main) {
            if t.expectations != vec!["?".to_string()] {
                continue;
            }
            let eff = sc.effective(main, tdoc, t);
            let w = written(sc.sim.programs.get(&t.nonce).map(|v| &v[..]).unwrap_or(&[]));
            let (o, e) = expected_streams(&eff, &w);
            let stream = if eff.stream == Stream::Stderr { e } else { o };
            let Some(mut exps) = line_expectations(&stream) else {
                fills.insert(t.nonce.clone(), (vec![], stream.is_empty()));
                continue;
            };
            let mut matches = true;
            if !t.expect_match {
                matches = false;
                let how = g.below(3);
                if exps.is_empty() || how == 0 {
                    exps.push("zz-never-printed".into());
                } else if how == 1 {
                    exps.pop();
                } else {
                    let k = g.below(exps.len() as u64) as usize;
                    exps[k] = format!("x{}", exps[k]);
                }
            }
            fills.insert(t.nonce.clone(), (exps, matches));
        }
    }
    for d in sc.docs.iter_mut() {
        for t in d.tests.iter_mut() {
            if let Some((e, m)) = fills.remove(&t.nonce) {
                t.expectations = e;
                t.expect_match = m;
            } else if t.expectations == vec!["?".to_string()] {
                t.expectations = vec![];
            }
        }
    }
}

pub fn doc(path: &str, format: Format, tests: Vec<Test>) -> Doc {
    Doc {
        path: path.into(),
        format,
        total_timeout_ns: None,
        defaults: TestCfg::default(),
        prepend: vec![],
        append: vec![],
        tests,
        main: true,
        shell: None,
        raw: None,
        compact: false,
        loose_front_matter: false,
        fence_trailing_space: false,
        stored_at: None,
        file_symlink: false,
        fence_wide_gap: false,
        pad_lines: 0,
        long_closing_fence: false,
        unreadable: None,
    }
}

pub fn base_sim(seed: u64) -> SimScenario {
    SimScenario {
        seed,
        ..Default::default()
    }
}

pub fn swarm(g: &mut G) -> Swarm {
    let mut s = Swarm::default();
    if g.chance(25) {
        s.pipe_capacity = 4096;
    }
    if g.chance(30) {
        s.syscall_cost_ns = *g.pick(&[1_000u64, 50_000, 200_000]);
    }
    if g.chance(25) {
        s.stall_per_mille = *g.pick(&[5u32, 50, 300]);
        s.stall_max_ns = *g.pick(&[1_000u64, 1_000_000, 2_000_000_000]);
    }
    s.spawn_latency_max_ns = *g.pick(&[1_000u64, 1_000_000, 20_000_000]);
    s.chunk_max = *g.pick(&[1usize, 7, 512, 4096, 65536]);
    s.chunk_gap_max_ns = *g.pick(&[0u64, 1_000, 1_000_000]);
    s
}

fn stream_at_layer(sc: &mut Scenario, di: usize, ti: usize, s: Stream, layer: u64) {
    match layer {
        0 => sc.docs[di].tests[ti].cfg.output_stream = Some(s),
        1 => sc.docs[di].defaults.output_stream = Some(s),
        _ => {
            // command line: only combined / stdout can be expressed
            match s {
                Stream::Combined => sc.cli.combine_output = Some(true),
                Stream::Stdout => sc.cli.combine_output = Some(false),
                Stream::Stderr => sc.docs[di].tests[ti].cfg.output_stream = Some(s),
            }
        }
    }
}

// ------------------------------------------------------------------ lane: fates (C05, C15, C20, C12a, C13 basics)

pub fn fate_catalogue() -> Vec<(&'static str, Plan)> {
    let c = |code, expected, exit_shell| Fate::Code { code, expected, exit_shell };
    let skip_inline = |code: i32| TestCfg {
        skip_code: Some(code),
        ..Default::default()
    };
    vec![
        ("pass", Plan::new(Fate::Pass)),
        ("pass-code", Plan::new(c(7, Some(7), false))),
        ("pass-code-exit", Plan::new(c(7, Some(7), true))),
        ("wrong-code", Plan::new(c(3, None, false))),
        ("wrong-code-exit", Plan::new(c(3, Some(4), true))),
        ("zero-but-expected-nonzero", Plan::new(c(0, Some(5), false))),
        ("wrong-output", Plan::new(Fate::WrongOutput)),
        ("wrong-code-and-output", Plan::new(Fate::WrongCodeAndOutput { code: 9 })),
        ("code-255", Plan::new(c(255, Some(255), false))),
        ("code-128-unexpected", Plan::new(c(128, None, false))),
        ("code-200-exit", Plan::new(c(200, Some(200), true))),
        ("code-137-expected-9", Plan::new(c(137, Some(9), false))),
        ("pass-silent", {
            let mut p = Plan::new(Fate::Pass);
            p.lines = 0;
            p
        }),
        ("wrong-code-silent", {
            let mut p = Plan::new(c(2, None, false));
            p.lines = 0;
            p
        }),
        ("skip-default", Plan::new(c(80, None, false))),
        ("skip-default-exit", Plan::new(c(80, None, true))),
        ("skip-default-expected-80", Plan::new(c(80, Some(80), false))),
        ("skip-custom-inline", Plan::new(c(33, None, false)).cfg(skip_inline(33))),
        ("skip-custom-inline-expected", Plan::new(c(33, Some(33), true)).cfg(skip_inline(33))),
        ("no-skip-80-when-custom", Plan::new(c(80, Some(80), false)).cfg(skip_inline(33))),
        ("no-skip-80-when-custom-wrong", Plan::new(c(80, None, false)).cfg(skip_inline(33))),
        ("die-kill-noexp", Plan::new(Fate::Die { sig: 9, after_lines: 0, no_expectations: true })),
        ("die-kill-start", Plan::new(Fate::Die { sig: 9, after_lines: 0, no_expectations: false })),
        ("die-segv-mid", Plan::new(Fate::Die { sig: 11, after_lines: 1, no_expectations: false })),
        ("die-term-end", Plan::new(Fate::Die { sig: 15, after_lines: 2, no_expectations: false })),
        ("die-abrt-noexp", Plan::new(Fate::Die { sig: 6, after_lines: 0, no_expectations: true })),
        ("die-kill-expects-137", Plan::new(Fate::DieExpecting { sig: 9, expected: 137 })),
        ("die-term-expects-143", Plan::new(Fate::DieExpecting { sig: 15, expected: 143 })),
        ("die-segv-expects-139", Plan::new(Fate::DieExpecting { sig: 11, expected: 139 })),
        ("die-kill-expects-9", Plan::new(Fate::DieExpecting { sig: 9, expected: 9 })),
        ("die-hup-expects-1", Plan::new(Fate::DieExpecting { sig: 1, expected: 1 })),
        ("die-int-expects-130", Plan::new(Fate::DieExpecting { sig: 2, expected: 130 })),
        ("slow-ok", Plan::new(Fate::Slow { ns: 2 * SEC })),
        ("hang-timeout", Plan::new(Fate::Hang).cfg(TestCfg { timeout_ns: Some(3 * SEC), ..Default::default() })),
        ("slow-timeout", Plan::new(Fate::Slow { ns: 10 * SEC }).cfg(TestCfg { timeout_ns: Some(3 * SEC), ..Default::default() })),
        ("detached", Plan::new(Fate::Detached)),
        ("bg-hold", Plan::new(Fate::BgHold { ns: 500 * MS })),
        ("bg-late-150ms", Plan::new(Fate::BgLate { ns: 150 * MS })),
        ("bg-late-1500ms", Plan::new(Fate::BgLate { ns: 1500 * MS })),
        ("bg-late-1min", Plan::new(Fate::BgLate { ns: 60 * SEC })),
        ("bg-late-under-limit", Plan::new(Fate::BgLate { ns: 1500 * MS }).cfg(TestCfg { timeout_ns: Some(3 * SEC), ..Default::default() })),
        ("close-stdout-only", Plan::new(Fate::CloseOne { fd: 1, ns: 700 * MS })),
        ("close-stderr-only", Plan::new(Fate::CloseOne { fd: 2, ns: 700 * MS })),
        ("close-stdout-only-under-limit", Plan::new(Fate::CloseOne { fd: 1, ns: 1500 * MS }).cfg(TestCfg { timeout_ns: Some(3 * SEC), ..Default::default() })),
        ("close-stderr-only-past-limit", Plan::new(Fate::CloseOne { fd: 2, ns: 30 * SEC }).cfg(TestCfg { timeout_ns: Some(2 * SEC), ..Default::default() })),
        ("trickle-100ms", Plan::new(Fate::Trickle { every_ns: 100 * MS, lines: 12 })),
        ("trickle-under-limit", Plan::new(Fate::Trickle { every_ns: 300 * MS, lines: 8 }).cfg(TestCfg { timeout_ns: Some(3 * SEC), ..Default::default() })),
        ("trickle-past-limit", Plan::new(Fate::Trickle { every_ns: 300 * MS, lines: 20 }).cfg(TestCfg { timeout_ns: Some(2 * SEC), ..Default::default() })),
        ("stderr-long", Plan::new(Fate::StderrLong { ns: 2 * SEC })),
        ("stderr-long-past-limit", Plan::new(Fate::StderrLong { ns: 5 * SEC }).cfg(TestCfg { timeout_ns: Some(2 * SEC), ..Default::default() })),
        ("gt-lines", Plan::new(Fate::GtLines)),
        ("bracket-lines-ok", Plan::new(Fate::BracketLines { code: 0 })),
        ("bracket-lines-wrong-code", Plan::new(Fate::BracketLines { code: 7 })),
        ("close-then-linger-short", Plan::new(Fate::CloseThenLinger { ns: Some(300 * MS) })),
        // (a hand-made daemon start: streams closed early, the shell itself ends seconds later -
        // its successor must still find what it left behind)
        ("close-then-linger-3s", Plan::new(Fate::CloseThenLinger { ns: Some(3 * SEC) })),
        ("close-then-linger-3s-under-limit", Plan::new(Fate::CloseThenLinger { ns: Some(3 * SEC) }).cfg(TestCfg { timeout_ns: Some(60 * SEC), ..Default::default() })),
        ("close-then-linger-2min", Plan::new(Fate::CloseThenLinger { ns: Some(120 * SEC) })),
        ("late-close-ok", Plan::new(Fate::LateClose { before_ns: 800 * MS, after_ns: 800 * MS }).cfg(TestCfg { timeout_ns: Some(2 * SEC), ..Default::default() })),
        ("late-close-over", Plan::new(Fate::LateClose { before_ns: 1200 * MS, after_ns: 1700 * MS }).cfg(TestCfg { timeout_ns: Some(2 * SEC), ..Default::default() })),
        (
            "close-then-linger-past-timeout",
            Plan::new(Fate::CloseThenLinger { ns: Some(30 * SEC) }).cfg(TestCfg { timeout_ns: Some(2 * SEC), ..Default::default() }),
        ),
    ]
}

pub fn fault_catalogue() -> Vec<(&'static str, fn(u32) -> Fault)> {
    vec![
        ("spawn-enoent", |k| Fault::Spawn { nth: k, errno: 2 }),
        ("spawn-eagain", |k| Fault::Spawn { nth: k, errno: 11 }),
        ("poll-eintr-0", |k| Fault::PollEintr { proc: k, nth: 0 }),
        ("poll-eintr-2", |k| Fault::PollEintr { proc: k, nth: 2 }),
        ("read-eio-0", |k| Fault::ReadErr { proc: k, nth: 0, errno: 5 }),
        ("read-eio-1", |k| Fault::ReadErr { proc: k, nth: 1, errno: 5 }),
        ("wait-echild", |k| Fault::Wait { proc: k, errno: 10 }),
        ("state-dir-enospc", |k| Fault::Fs { site: "exec:state-dir".into(), nth: k % 3, errno: 28 }),
        ("document-dir-eacces", |k| Fault::Fs { site: "env:document-dir".into(), nth: k % 3, errno: 13 }),
        ("detached-stdin-enospc", |k| Fault::Fs { site: "exec:detached-stdin".into(), nth: k % 2, errno: 28 }),
    ]
}

/// every fate x position x stream x layer x execution mode, in a 3-test document
pub fn lane_fates(tier: Tier, seed: u64) -> Vec<Scenario> {
    let mut out = vec![];
    let mut g = G::new(seed ^ 0xfa7e);
    let streams = [Stream::Stdout, Stream::Stderr, Stream::Combined];
    for script in [false, true] {
        for (name, plan) in fate_catalogue() {
            if script
                && (plan.cfg.timeout_ns.is_some()
                    || plan.fate == Fate::Detached
                    || plan.cfg.skip_code.is_some()
                    // closing the one shell's outputs also swallows scrut's own dividers; a line
                    // written late lands in whichever command of the one shell runs then
                    || matches!(plan.fate, Fate::CloseThenLinger { .. } | Fate::LateClose { .. } | Fate::BgLate { .. } | Fate::CloseOne { .. }))
            {
                continue; // per-test settings are not available in single-script mode
            }
            for pos in 0..3usize {
                for (si, s) in streams.iter().enumerate() {
                    if script && *s == Stream::Stderr {
                        continue;
                    }
                    let mut sim = base_sim(g.rng.next_u64());
                    let mut tests = vec![];
                    for k in 0..3 {
                        let p = if k == pos { plan.clone() } else { Plan::new(Fate::Pass) };
                        tests.push(g.test(&p, &mut sim.programs));
                    }
                    let format = if script && tier == Tier::Cli { Format::Cram } else { Format::Md };
                    let path = if format == Format::Cram { "fates.t" } else { "fates.md" };
                    let mut sc = Scenario {
                        lane: format!("fates/{}/{}/pos{}/{:?}", if script { "script" } else { "proc" }, name, pos, s),
                        tier,
                        script_mode: script,
                        docs: vec![doc(path, format, tests)],
                        cli: Cli::default(),
                        sim,
                        pretty: false,
                        check: vec!["C05".into(), "C12".into(), "C13".into(), "C14".into(), "C15".into(), "C18".into(), "C20".into()],
                        partner: None,
                        turns: None,
                    };
                    if script {
                        // one stream for the whole document
                        if format == Format::Cram {
                            if *s == Stream::Stdout {
                                sc.cli.combine_output = Some(false);
                            }
                        } else {
                            sc.docs[0].defaults.output_stream = Some(*s);
                        }
                    } else {
                        let layer = ((pos + si) % 3) as u64;
                        stream_at_layer(&mut sc, 0, pos, *s, layer);
                    }
                    fill_expectations(&mut sc, &mut g);
                    out.push(sc);
                }
            }
        }
    }
    out
}

/// every fault kind x position, in a 3-test document, both modes
pub fn lane_faults(tier: Tier, seed: u64) -> Vec<Scenario> {
    let mut out = vec![];
    let mut g = G::new(seed ^ 0xfa17);
    for script in [false, true] {
        for (name, mk) in fault_catalogue() {
            for pos in 0..3u32 {
                if script && pos > 0 {
                    continue; // one process only
                }
                for noexp in [false, true] {
                    let mut sim = base_sim(g.rng.next_u64());
                    sim.faults.push(mk(pos));
                    let mut tests = vec![];
                    for _ in 0..3 {
                        let mut t = g.test(&Plan::new(Fate::Pass), &mut sim.programs);
                        if noexp {
                            // a test without expectations whose command prints nothing
                            sim.programs.insert(t.nonce.clone(), vec![Op::Status { code: 0 }]);
                            t.expectations = vec![];
                        }
                        tests.push(t);
                    }
                    let format = if script && tier == Tier::Cli { Format::Cram } else { Format::Md };
                    let path = if format == Format::Cram { "faults.t" } else { "faults.md" };
                    let mut sc = Scenario {
                        lane: format!("faults/{}/{}/pos{}/{}", if script { "script" } else { "proc" }, name, pos, if noexp { "noexp" } else { "exp" }),
                        tier,
                        script_mode: script,
                        docs: vec![doc(path, format, tests)],
                        cli: Cli::default(),
                        sim,
                        pretty: false,
                        check: vec!["C05".into(), "C12".into(), "C13".into(), "C14".into(), "C15".into(), "C18".into(), "C20".into()],
                        partner: None,
                        turns: None,
                    };
                    fill_expectations(&mut sc, &mut g);
                    out.push(sc);
                }
            }
        }
    }
    out
}

// ------------------------------------------------------------------ lane: timing (C14)

#[derive(Clone, Copy, Debug, PartialEq, Eq)]
pub enum DurClass {
    Short,
    JustUnder,
    Tie,
    JustOver,
    Long,
    Hang,
    BgHold,
    /// closes its outputs at once, then keeps running well past the limit
    CloseLinger,
    /// closes its streams at 0.6 of the limit and ends at 1.5 of it: must be aborted at the limit
    LateCloseOver,
    /// closes its streams at 0.4 of the limit and ends at 0.8 of it: must not be aborted
    LateCloseUnder,
}

/// the systematic timing cross product of DESIGN §5.2
pub fn lane_timing(tier: Tier, seed: u64) -> Vec<Scenario> {
    let mut out = vec![];
    let mut tests_made = 0usize;
    let mut g = G::new(seed ^ 0x71e);
    let classes = [
        DurClass::Short,
        DurClass::JustUnder,
        DurClass::Tie,
        DurClass::JustOver,
        DurClass::Long,
        DurClass::Hang,
        DurClass::BgHold,
        DurClass::CloseLinger,
        DurClass::LateCloseOver,
        DurClass::LateCloseUnder,
    ];
    // document limit: absent (-> 900 s), 0 = unlimited, short; given in front-matter or on the command line
    #[derive(Clone, Copy, Debug, PartialEq)]
    enum DocLim {
        Absent,
        Zero,
        ShortFront,
        ShortCli,
        /// hours: free in virtual time, never exercised with real sleeps
        HugeCli,
        /// `--timeout-seconds 0` (unlimited) over a short front-matter limit: the command line wins
        ZeroCliOverFront,
        /// `--timeout-seconds 4` over `total_timeout: 0s` (unlimited) in the front-matter: the
        /// command line wins here too - "0" is not the smallest limit
        ShortCliOverZeroFront,
        /// `--timeout-seconds 4294967300` (2^32 + 4): a limit of 136 years, not of 4 s
        WrapCli,
    }
    #[derive(Clone, Copy, Debug, PartialEq)]
    enum TestLim {
        Absent,
        Shorter,
        Longer,
        /// the same "shorter" limit, but given in the document's `defaults`
        ShorterInDefaults,
        /// 50 days: more milliseconds than fit in 32 bits
        Huge,
    }
    #[derive(Clone, Copy, Debug, PartialEq)]
    enum W {
        None,
        Dur,
        PathHit,
        PathMiss,
        /// a wait that alone uses up what is left of the document limit
        DurOver,
    }
    for script in [false, true] {
        for dl in [DocLim::Absent, DocLim::Zero, DocLim::ShortFront, DocLim::ShortCli, DocLim::HugeCli, DocLim::ZeroCliOverFront, DocLim::ShortCliOverZeroFront, DocLim::WrapCli] {
            for tl in [TestLim::Absent, TestLim::Shorter, TestLim::Longer, TestLim::ShorterInDefaults, TestLim::Huge] {
                if script && tl != TestLim::Absent {
                    continue;
                }
                for pos in 0..3usize {
                    for cls in classes {
                        for wait in [W::None, W::Dur, W::PathHit, W::PathMiss, W::DurOver] {
                            if script && wait != W::None {
                                continue;
                            }
                            if wait != W::None && !(pos == 1) {
                                continue; // the wait sits on the slow test in the middle position only
                            }
                            // the limit that is meant to bite, relative to which the class is defined
                            let doc_ns: Option<u64> = match dl {
                                DocLim::Absent => Some(900 * SEC),
                                DocLim::Zero | DocLim::ZeroCliOverFront => None,
                                DocLim::ShortFront => Some(if script && tier == Tier::Cli { 4 * SEC } else { 4500 * MS }),
                                DocLim::ShortCli | DocLim::ShortCliOverZeroFront => Some(4 * SEC),
                                DocLim::HugeCli => Some(7200 * SEC),
                                // (the classes are laid out around the 4 s it must NOT be taken for)
                                DocLim::WrapCli => Some(4 * SEC),
                            };
                            if dl == DocLim::WrapCli
                                && (tier != Tier::Cli || wait != W::None || !matches!(cls, DurClass::Short | DurClass::JustUnder | DurClass::JustOver | DurClass::Long))
                            {
                                continue;
                            }
                            // the tests before the slow one take 1 s each
                            let before = pos as u64 * SEC;
                            let wait_ns = match wait {
                                W::None => 0,
                                W::Dur => 1500 * MS,
                                W::PathHit => 300 * MS, // detached helper touches the path at 300 ms
                                W::PathMiss => 2 * SEC,
                                W::DurOver => 6 * SEC,
                            };
                            if wait == W::DurOver && !matches!(dl, DocLim::ShortFront | DocLim::ShortCli) {
                                continue;
                            }
                            let remaining = doc_ns.map(|d| d.saturating_sub(before + wait_ns));
                            let test_ns: Option<u64> = match tl {
                                TestLim::Absent => None,
                                // (fractional on purpose: 1.7 s, not 2 s)
                                TestLim::Shorter | TestLim::ShorterInDefaults => {
                                    Some(remaining.map(|r| (r / 2).max(500 * MS)).unwrap_or(1700 * MS).min(1700 * MS))
                                }
                                TestLim::Huge => Some(50 * 86_400 * SEC),
                                TestLim::Longer => Some(remaining.map(|r| r + 5 * SEC).unwrap_or(5 * SEC)),
                            };
                            let bite = match (test_ns, remaining) {
                                (Some(t), Some(r)) => Some(t.min(r)),
                                (Some(t), None) => Some(t),
                                (None, r) => r,
                            };
                            let dur_ns = match (cls, bite) {
                                (DurClass::Short, _) => 10 * MS,
                                (DurClass::Hang, _) | (DurClass::BgHold, _) | (DurClass::CloseLinger, _) | (DurClass::LateCloseOver, _) | (DurClass::LateCloseUnder, _) => 0,
                                (_, None) => match cls {
                                    DurClass::Long => 7200 * SEC,
                                    _ => SEC,
                                },
                                (DurClass::JustUnder, Some(b)) => b.saturating_sub(30 * MS),
                                (DurClass::Tie, Some(b)) => b,
                                (DurClass::JustOver, Some(b)) => b + 30 * MS,
                                (DurClass::Long, Some(b)) => b * 3 + SEC,
                                _ => unreachable!(),
                            };
                            if script && matches!(cls, DurClass::CloseLinger | DurClass::LateCloseOver | DurClass::LateCloseUnder) {
                                continue;
                            }
                            if bite.is_none() && matches!(cls, DurClass::Hang | DurClass::BgHold | DurClass::CloseLinger | DurClass::LateCloseOver | DurClass::LateCloseUnder) {
                                continue; // nothing bounds the wait: scrut legitimately waits forever
                            }
                            let mut sim = base_sim(g.rng.next_u64());
                            // exact ties need exact child timing
                            sim.swarm.spawn_latency_max_ns = 1;
                            sim.swarm.chunk_gap_max_ns = 0;
                            // both resolutions of an exact tie, alternating (not left to the draw)
                            if cls == DurClass::Tie {
                                sim.swarm.tie = 1 + ((pos + tests_made) % 2) as u8;
                                tests_made += 1;
                            }
                            let mut tests = vec![];
                            for k in 0..3 {
                                let plan = if k == pos {
                                    let fate = match cls {
                                        DurClass::Hang => Fate::Hang,
                                        DurClass::BgHold => Fate::BgHold { ns: bite.unwrap_or(SEC) * 2 + SEC },
                                        DurClass::CloseLinger => Fate::CloseThenLinger { ns: Some(bite.unwrap_or(SEC) * 2 + SEC) },
                                        DurClass::LateCloseOver => Fate::LateClose { before_ns: bite.unwrap_or(SEC) * 6 / 10, after_ns: bite.unwrap_or(SEC) * 9 / 10 },
                                        DurClass::LateCloseUnder => Fate::LateClose { before_ns: bite.unwrap_or(SEC) * 4 / 10, after_ns: bite.unwrap_or(SEC) * 4 / 10 },
                                        _ => Fate::Slow { ns: dur_ns },
                                    };
                                    let mut p = Plan::new(fate);
                                    if tl != TestLim::ShorterInDefaults {
                                        p.cfg.timeout_ns = test_ns;
                                    }
                                    match wait {
                                        W::None => {}
                                        W::Dur => p.cfg.wait = Some(Wait { timeout_ns: wait_ns, path: None }),
                                        W::PathHit => p.cfg.wait = Some(Wait { timeout_ns: 5 * SEC, path: Some("ready.flag".into()) }),
                                        W::PathMiss => p.cfg.wait = Some(Wait { timeout_ns: wait_ns, path: Some("never.flag".into()) }),
                                        W::DurOver => p.cfg.wait = Some(Wait { timeout_ns: wait_ns, path: None }),
                                    }
                                    p
                                } else if k + 1 == pos && wait == W::PathHit {
                                    Plan::new(Fate::Detached)
                                } else if k < pos {
                                    Plan::new(Fate::Slow { ns: SEC })
                                } else {
                                    // (not instantaneous, so that a limit that silently vanished shows)
                                    Plan::new(Fate::Slow { ns: 700 * MS })
                                };
                                let t = g.test(&plan, &mut sim.programs);
                                if k + 1 == pos && wait == W::PathHit {
                                    sim.programs.insert(
                                        t.nonce.clone(),
                                        vec![Op::Sleep { ns: 300 * MS - 2 }, Op::Touch { rel: "ready.flag".into() }, Op::Status { code: 0 }],
                                    );
                                }
                                tests.push(t);
                            }
                            let format = if script && tier == Tier::Cli { Format::Cram } else { Format::Md };
                            let path = if format == Format::Cram { "timing.t" } else { "timing.md" };
                            let mut d = doc(path, format, tests);
                            d.fence_wide_gap = pos == 2;
                            d.long_closing_fence = pos == 1;
                            if tl == TestLim::ShorterInDefaults {
                                // applies to every test case of the document; the others are fast
                                d.defaults.timeout_ns = test_ns;
                            }
                            let mut cli = Cli::default();
                            match dl {
                                DocLim::Absent => {}
                                DocLim::Zero => {
                                    if format == Format::Cram {
                                        cli.timeout_seconds = Some(0)
                                    } else {
                                        d.total_timeout_ns = Some(0)
                                    }
                                }
                                DocLim::ShortFront => {
                                    if format == Format::Cram {
                                        cli.timeout_seconds = Some(4)
                                    } else {
                                        d.total_timeout_ns = Some(4500 * MS)
                                    }
                                }
                                DocLim::HugeCli => cli.timeout_seconds = Some(7200),
                                DocLim::WrapCli => cli.timeout_seconds = Some((1u64 << 32) + 4),
                                DocLim::ZeroCliOverFront => {
                                    cli.timeout_seconds = Some(0);
                                    if format == Format::Md {
                                        d.total_timeout_ns = Some(2 * SEC);
                                    }
                                }
                                DocLim::ShortCli => {
                                    cli.timeout_seconds = Some(4);
                                    if format == Format::Md {
                                        d.total_timeout_ns = Some(60 * SEC); // the command line wins
                                    }
                                }
                                DocLim::ShortCliOverZeroFront => {
                                    cli.timeout_seconds = Some(4);
                                    if format == Format::Md {
                                        d.total_timeout_ns = Some(0);
                                    }
                                }
                            }
                            let mut sc = Scenario {
                                lane: format!(
                                    "timing/{}/doc-{:?}/test-{:?}/pos{}/{:?}/wait-{:?}",
                                    if script { "script" } else { "proc" },
                                    dl,
                                    tl,
                                    pos,
                                    cls,
                                    wait
                                ),
                                tier,
                                script_mode: script,
                                docs: vec![d],
                                cli,
                                sim,
                                pretty: false,
                                check: vec!["C05".into(), "C12".into(), "C14".into(), "C15".into(), "C18".into(), "C20".into()],
                                partner: None,
                                turns: None,
                            };
                            // the same run with a document added by -A / -P: the limits must not care
                            // (only for classes that do not depend on exact alignment)
                            let with_extra = tier == Tier::Cli
                                && wait == W::None
                                && tl == TestLim::Absent
                                && matches!(cls, DurClass::Short | DurClass::Long | DurClass::Hang)
                                && !matches!(dl, DocLim::Absent);
                            let extra = if with_extra {
                                let mut e = sc.clone();
                                let mut esim = e.sim.clone();
                                let ext = if format == Format::Cram { "t" } else { "md" };
                                let mut shared = doc(&format!("shared/extra.{}", ext), format, vec![g.test(&Plan::new(Fate::Pass), &mut esim.programs)]);
                                shared.main = false;
                                e.sim = esim;
                                if pos == 2 {
                                    e.cli.prepend.push(format!("shared/extra.{}", ext));
                                } else {
                                    e.cli.append.push(format!("shared/extra.{}", ext));
                                }
                                e.cli.relative_paths = pos == 1;
                                e.docs.push(shared);
                                e.lane = format!("{}/with-{}", e.lane, if pos == 2 { "P" } else { "A" });
                                Some(e)
                            } else {
                                None
                            };
                            fill_expectations(&mut sc, &mut g);
                            out.push(sc);
                            if let Some(mut e) = extra {
                                fill_expectations(&mut e, &mut g);
                                out.push(e);
                            }
                        }
                    }
                }
            }
        }
    }
    out
}

// ------------------------------------------------------------------ lane: bytes (C13)

pub fn hostile_tokens() -> Vec<&'static str> {
    vec![
        "{shell_expression}",
        "{persist_state}",
        "{excluded_variables}",
        "{name}",
        "{state_directory}",
        "$?",
        "~~~~~~~~EXECDIVIDER::x::0::0",
        "~~~~~~~~EXECDIVIDER::",
        "__SCRUT_TEMP_STATE_PATH=\"/tmp/x\"",
        "[ 0 -eq 1 ] && trap x EXIT",
        "exec1",
        "\\",
        "'\"`$(",
        "# trailing comment",
        "cat <<EOT",
        "EOT",
        "exit",
        "\t",
        "  ",
    ]
}

pub fn payloads(g: &mut G, tag: &str) -> Vec<(&'static str, Vec<u8>)> {
    let mut all: Vec<u8> = (0u8..=255).collect();
    all.push(b'\n');
    let mut big = vec![];
    for k in 0..3000 {
        big.extend(format!("{}-big-{:05}\n", tag, k).as_bytes());
    }
    let mut crlf_many = vec![];
    for k in 0..2000 {
        crlf_many.extend(format!("{}{}\r\n", tag, k % 10).as_bytes());
    }
    let rnd: Vec<u8> = (0..(1 + g.below(700))).map(|_| g.below(256) as u8).collect();
    vec![
        ("empty", vec![]),
        ("one-line", format!("{}-a\n", tag).into_bytes()),
        ("no-final-newline", format!("{}-a\n{}-b", tag, tag).into_bytes()),
        ("only-newlines", b"\n\n\n".to_vec()),
        ("crlf", format!("{}-a\r\n{}-b\r\n", tag, tag).into_bytes()),
        ("crlf-no-final", format!("{}-a\r\n{}-b\r", tag, tag).into_bytes()),
        ("lfcr", format!("{}-a\n\r{}-b\n\r", tag, tag).into_bytes()),
        ("lone-cr", format!("{}-a\r{}-b\r\r\n", tag, tag).into_bytes()),
        ("crcrlf", format!("{}\r\r\n\r\r\n", tag).into_bytes()),
        ("all-bytes", all),
        ("nul-esc", format!("{}\0\x1b[x\x1b\n", tag).into_bytes()),
        ("invalid-utf8", vec![0xff, 0xfe, b'\n', 0xc3, 0x28, b'\n', 0xe2, 0x82, b'\n']),
        ("sgr", format!("\x1b[31m{}-red\x1b[0m\n\x1b[1;32m{}\x1b[m\n", tag, tag).into_bytes()),
        // bytes that are not UTF-8 next to escape sequences (finding Z)
        (
            "sgr-bytes",
            // (0x9b is the 8-bit CSI - and an ordinary continuation byte of UTF-8: "ě", U+1F61B)
            [b"\x1b[31m".as_slice(), tag.as_bytes(), b"\xff\xfe-red\x1b[0m\n\xc3\x28", tag.as_bytes(), b"\x1b[1;4m\x80\x1b[m\nm\xc4\x9bst\xc4\x9b \xf0\x9f\x98\x9b je kr\xc4\x9bsn\xc4\x9b \x9b1mlone\n"].concat(),
        ),
        // control characters that are no escape sequences next to real ones (finding P)
        (
            "sgr-controls",
            format!("\x1b[31m{}-red\x1b[0m\ttab\x07bel\r\n{}\x08bs \x1b[1mlone\x1b[m\rcr\n\x0c{}-ff\x0b\n", tag, tag, tag).into_bytes(),
        ),
        // an escape sequence BETWEEN a CR and a LF: what the command wrote has no CR LF pair -
        // the order of the two documented transformations matters
        ("sgr-between-cr-lf", format!("{}-a\r\x1b[0m\n{}-b\r\x1b[1;31m\x1b[m\n\x1b[32m{}-c\x1b[0m\r\n", tag, tag, tag).into_bytes()),
        // an escape sequence that is never finished, at the very end of the output: what follows
        // it in the pipe is not this test case's (single-script mode only - there the bytes that
        // follow are scrut's own divider, and stripped and untouched are both accepted; in
        // per-process mode whether later bytes complete the sequence is beyond the oracle's model
        // of stripping)
        ("sgr-unfinished-at-end", format!("{}-a\n{}\x1b[1", tag, tag).into_bytes()),
        ("osc-unfinished-at-end", format!("{}-a\n\x1b]0;{}", tag, tag).into_bytes()),
        ("divider-like", format!("~~~~~~~~EXECDIVIDER::x::0::0\n{}\n", tag).into_bytes()),
        ("divider-prefix-only", format!("{} ~~~~~~~~EXECDIVIDER::\n", tag).into_bytes()),
        ("divider-like-unterminated", format!("{}\n~~~~~~~~EXECDIVIDER::x::1::7", tag).into_bytes()),
        ("divider-like-bad-numbers", format!("~~~~~~~~EXECDIVIDER::{}::notanumber::x\n", tag).into_bytes()),
        ("placeholders", format!("{{shell_expression}} {{persist_state}} {{name}} {} $?\n", tag).into_bytes()),
        ("ws-unterminated", format!("{}-a\n  {}-indented-last", tag, tag).into_bytes()),
        ("ws-only-unterminated", format!("{}-a\n \t ", tag).into_bytes()),
        ("ws-lines", format!("  {}-lead\n{}-trail  \n\t{}\t\n   \n\x0c{}\x0b\n", tag, tag, tag, tag).into_bytes()),
        ("single-space", b" ".to_vec()),
        ("big-200k", big),
        ("crlf-2000", crlf_many),
        ("random", rnd),
    ]
}

/// each payload kind on stdout / stderr / both, each setting of keep_crlf and strip_ansi, both
/// modes; plus hostile tokens inside the expression
pub fn lane_bytes(seed: u64) -> Vec<Scenario> {
    let mut out = vec![];
    let mut g = G::new(seed ^ 0xb17e5);
    let check: Vec<String> = vec!["C13".into(), "C12".into(), "C20".into()];
    for script in [false, true] {
        let kinds: Vec<&'static str> = payloads(&mut G::new(1), "x").iter().map(|p| p.0).collect();
        for kind in kinds {
            if !script && kind.ends_with("unfinished-at-end") {
                continue;
            }
            for variant in 0..6u32 {
                // variant: where the payload goes and which settings are on
                let mut sim = base_sim(g.rng.next_u64());
                sim.swarm = swarm(&mut g);
                sim.swarm.stall_per_mille = 0;
                let mut tests = vec![];
                let n_tests = 3;
                for k in 0..n_tests {
                    let nonce = g.nonce();
                    let tag = nonce[..6].to_string();
                    let pl = payloads(&mut g, &tag).into_iter().find(|p| p.0 == kind).unwrap().1;
                    let other = format!("{}-other\n", tag).into_bytes();
                    let mut ops = vec![];
                    match variant % 3 {
                        0 => {
                            ops.push(Op::Out { fd: 1, data: Bytes(pl.clone()) });
                            ops.push(Op::Out { fd: 2, data: Bytes(other) });
                        }
                        1 => {
                            ops.push(Op::Out { fd: 2, data: Bytes(pl.clone()) });
                            ops.push(Op::Out { fd: 1, data: Bytes(other) });
                        }
                        _ => {
                            // interleaved on both at once, in pieces
                            // (cut at line boundaries so that no escape sequence is torn apart)
                            let cut = |want: usize| -> usize {
                                if !kind.starts_with("sgr") {
                                    return want;
                                }
                                pl.iter().take(want.max(1)).rposition(|c| *c == b'\n').map(|p| p + 1).unwrap_or(0)
                            };
                            let third = cut(pl.len() / 3);
                            let _ = third;
                            let third = if kind.starts_with("sgr") { cut(pl.len() / 2) / 1 } else { pl.len() / 3 };
                            let two = if kind.starts_with("sgr") { third } else { 2 * third };
                            ops.push(Op::Out { fd: 1, data: Bytes(pl[..third].to_vec()) });
                            ops.push(Op::Out { fd: 2, data: Bytes(pl[third..two].to_vec()) });
                            ops.push(Op::Out { fd: 1, data: Bytes(pl[two..].to_vec()) });
                            ops.push(Op::Out { fd: 2, data: Bytes(pl.clone()) });
                        }
                    }
                    let code = [0, 1, 42, 255][(k + variant as usize) % 4];
                    ops.push(Op::Status { code });
                    sim.programs.insert(nonce.clone(), ops);
                    tests.push(Test {
                        title: format!("B {}", nonce),
                        expr: format!("vsim-cmd @vs:{}@ bytes @ve:{}@", nonce, nonce),
                        nonce,
                        expected_code: Some(code),
                        expectations: vec![],
                        expect_match: false,
                        cfg: TestCfg::default(),
                    });
                }
                let mut d = doc("bytes.md", Format::Md, tests);
                // settings, rotated over the layers
                let keep = [None, Some(true), Some(false)][(variant % 3) as usize];
                let strip = kind.starts_with("sgr") && variant >= 3;
                let stream = [Stream::Stdout, Stream::Combined, Stream::Stderr][((variant / 2) % 3) as usize];
                if script {
                    d.defaults.keep_crlf = keep;
                    d.defaults.output_stream = Some(if stream == Stream::Stderr { Stream::Stdout } else { stream });
                    if strip {
                        d.defaults.strip_ansi = Some(true);
                    }
                } else {
                    for (k, t) in d.tests.iter_mut().enumerate() {
                        if k % 2 == 0 {
                            t.cfg.keep_crlf = keep;
                            t.cfg.output_stream = Some(stream);
                        } else {
                            d.defaults.keep_crlf = keep;
                            d.defaults.output_stream = Some(stream);
                        }
                        if strip {
                            t.cfg.strip_ansi = Some(true);
                        }
                    }
                }
                out.push(Scenario {
                    lane: format!("bytes/{}/{}/v{}", if script { "script" } else { "proc" }, kind, variant),
                    tier: Tier::Lib,
                    script_mode: script,
                    docs: vec![d],
                    cli: Cli::default(),
                    sim,
                    pretty: false,
                    check: check.clone(),
                    partner: None,
                    turns: None,
                });
            }
        }
        // hostile text inside the expression
        for tok in hostile_tokens() {
            for place in 0..5u32 {
                let mut sim = base_sim(g.rng.next_u64());
                let mut tests = vec![];
                for k in 0..2 {
                    let nonce = g.nonce();
                    let tag = nonce[..6].to_string();
                    sim.programs.insert(
                        nonce.clone(),
                        vec![Op::Out { fd: 1, data: format!("{}-out\n", tag).as_str().into() }, Op::Status { code: k }],
                    );
                    let expr = match place {
                        0 => format!("vsim-cmd @vs:{}@ echo '{}' @ve:{}@", nonce, tok, nonce),
                        1 => format!("vsim-cmd @vs:{}@ first\n{}\nlast @ve:{}@", nonce, tok, nonce),
                        2 => format!("vsim-cmd @vs:{}@ {}{} @ve:{}@", nonce, tok, tok, nonce),
                        // the token is the very end (or the very start) of the expression
                        3 => format!("vsim-cmd @vs:{}@ run @ve:{}@ {}", nonce, nonce, tok),
                        _ => format!("{} vsim-cmd @vs:{}@ run @ve:{}@", tok.trim_start(), nonce, nonce),
                    };
                    tests.push(Test {
                        title: format!("H {}", nonce),
                        expr,
                        nonce,
                        expected_code: Some(k),
                        expectations: vec![format!("{}-out", tag)],
                        expect_match: true,
                        cfg: TestCfg::default(),
                    });
                }
                out.push(Scenario {
                    lane: format!("bytes/{}/expr-token/{}/p{}", if script { "script" } else { "proc" }, tok, place),
                    tier: Tier::Lib,
                    script_mode: script,
                    docs: vec![doc("hostile.md", Format::Md, tests)],
                    cli: Cli::default(),
                    sim,
                    pretty: false,
                    check: vec!["C13".into(), "C05".into(), "C20".into(), "C12".into()],
                    partner: None,
                    turns: None,
                });
            }
        }
    }
    out.extend(lane_early_exit(seed));
    out
}

/// the early-exit / unread stdin family (finding J): `exit 3` followed by more script text
/// megabytes, on one stream or on both at once, in units whose length is coprime to every
/// buffer size, so that CR LF pairs / multi-byte sequences straddle all block boundaries
pub fn lane_big(seed: u64) -> Vec<Scenario> {
    let mut out = vec![];
    let mut g = G::new(seed ^ 0xb166);
    let units: Vec<(&str, Vec<u8>)> = vec![
        ("crlf11", b"line-xyz-\r\n".to_vec()),
        ("lf7", b"abcdef\n".to_vec()),
        ("utf8", "ü漢字-☃\n".as_bytes().to_vec()),
        ("crcrlf", b"x\r\r\ny\r".to_vec()),
        ("no-newline", b"0123456789abc".to_vec()),
        ("sgr", b"\x1b[31mred\x1b[0m plain\n".to_vec()),
    ];
    for script in [false, true] {
        for (uname, unit) in &units {
            for (sname, total) in [("5k", 5_000usize), ("70k", 70_000), ("300k", 300_000), ("1m", 1_100_000)] {
                for both in [false, true] {
                    let mut sim = base_sim(g.rng.next_u64());
                    sim.swarm = swarm(&mut g);
                    sim.swarm.stall_per_mille = 0;
                    if total > 200_000 {
                        sim.swarm.chunk_max = sim.swarm.chunk_max.max(512);
                    }
                    let nonce = g.nonce();
                    let times = (total / unit.len()) as u64;
                    let mut ops = vec![];
                    if both {
                        // alternate between the descriptors in ten rounds
                        for r in 0..10u64 {
                            ops.push(Op::OutRepeat { fd: 1 + (r % 2) as u8, unit: Bytes(unit.clone()), times: times / 10 });
                        }
                    } else {
                        ops.push(Op::OutRepeat { fd: 1, unit: Bytes(unit.clone()), times });
                        ops.push(Op::Out { fd: 2, data: "tail-on-stderr".into() });
                    }
                    ops.push(Op::Status { code: 3 });
                    sim.programs.insert(nonce.clone(), ops);
                    let strip = *uname == "sgr" && !script;
                    let keep = g.below(3) == 0;
                    let t = Test {
                        title: format!("Big {}", nonce),
                        expr: format!("vsim-cmd @vs:{}@ big @ve:{}@", nonce, nonce),
                        nonce,
                        expected_code: Some(3),
                        expectations: vec![],
                        expect_match: false,
                        cfg: TestCfg {
                            output_stream: if script { None } else { Some(*g.pick(&[Stream::Stdout, Stream::Stderr, Stream::Combined])) },
                            keep_crlf: if script { None } else if keep { Some(true) } else { None },
                            strip_ansi: if strip { Some(true) } else { None },
                            ..Default::default()
                        },
                    };
                    // a small neighbour before and after: nothing may bleed over
                    let mut tests = vec![];
                    let mut small = |g: &mut G, sim: &mut SimScenario| {
                        let n = g.nonce();
                        sim.programs.insert(n.clone(), vec![Op::Out { fd: 1, data: format!("{}-small\n", &n[..6]).as_str().into() }, Op::Status { code: 0 }]);
                        Test {
                            title: format!("S {}", n),
                            expr: format!("vsim-cmd @vs:{}@ small @ve:{}@", n, n),
                            nonce: n,
                            expected_code: Some(0),
                            expectations: vec![],
                            expect_match: false,
                            cfg: TestCfg::default(),
                        }
                    };
                    tests.push(small(&mut g, &mut sim));
                    tests.push(t);
                    tests.push(small(&mut g, &mut sim));
                    let mut d = doc("big.md", Format::Md, tests);
                    if script && keep {
                        d.defaults.keep_crlf = Some(false);
                    }
                    // (every other one without any limit at all: `total_timeout: 0s`)
                    let unlimited = out.len() % 2 == 1;
                    if unlimited {
                        d.total_timeout_ns = Some(0);
                    }
                    out.push(Scenario {
                        lane: format!("big/{}/{}/{}/{}{}", if script { "script" } else { "proc" }, uname, sname, if both { "both" } else { "one" }, if unlimited { "/unlimited" } else { "" }),
                        tier: Tier::Lib,
                        script_mode: script,
                        docs: vec![d],
                        cli: Cli::default(),
                        sim,
                        pretty: false,
                        check: vec!["C13".into()],
                        partner: None,
                        turns: None,
                    });
                }
            }
        }
    }
    out
}

/// a long script on stdin while the command already writes a lot: scrut has to feed and drain
/// at the same time (the situation the poll loop exists for)
pub fn lane_big_stdin(seed: u64) -> Vec<Scenario> {
    let mut out = vec![];
    let mut g = G::new(seed ^ 0x57d1);
    for script in [false, true] {
        for stdin_kib in [10usize, 70, 300, 1200] {
            for out_kib in [0usize, 70, 400] {
                for cap in [65536usize, 4096] {
                    let mut sim = base_sim(g.rng.next_u64());
                    sim.swarm = swarm(&mut g);
                    sim.swarm.stall_per_mille = 0;
                    sim.swarm.pipe_capacity = cap;
                    sim.swarm.chunk_max = sim.swarm.chunk_max.max(512);
                    let mut tests = vec![];
                    for k in 0..2 {
                        let nonce = g.nonce();
                        let unit = format!("{}-line\n", &nonce[..6]).into_bytes();
                        let times = (out_kib * 1024 / unit.len()) as u64;
                        let mut ops = vec![];
                        if times > 0 {
                            ops.push(Op::OutRepeat { fd: 1, unit: Bytes(unit.clone()), times: times / 2 });
                            ops.push(Op::OutRepeat { fd: 2, unit: Bytes(unit.clone()), times: times / 2 });
                        }
                        // (no output at all and exit code 0 for the big one of the silent scenarios: a
                        // test case that passes - if its expression ever reaches a shell)
                        let silent = out_kib == 0 && k == 0;
                        if !silent {
                            ops.push(Op::Out { fd: 1, data: format!("{}-end\n", &nonce[..6]).as_str().into() });
                        }
                        ops.push(Op::Status { code: if silent { 0 } else { 7 + k } });
                        sim.programs.insert(nonce.clone(), ops);
                        // the command is the first line; the rest is text the shell reads afterwards
                        let mut expr = format!("vsim-cmd @vs:{}@ run @ve:{}@ # then a long tail\n", nonce, nonce);
                        let filler = ": filler filler filler filler filler filler filler filler filler filler filler\n";
                        let want = if k == 0 { stdin_kib * 1024 } else { 2048 };
                        while expr.len() < want {
                            expr.push_str(filler);
                        }
                        expr.push_str(": tail end");
                        tests.push(Test {
                            title: format!("In {}", nonce),
                            expr,
                            nonce,
                            expected_code: if silent { None } else { Some(7 + k) },
                            expectations: vec![],
                            expect_match: silent,
                            cfg: TestCfg::default(),
                        });
                    }
                    out.push(Scenario {
                        lane: format!("big-stdin/{}/in{}k/out{}k/cap{}", if script { "script" } else { "proc" }, stdin_kib, out_kib, cap),
                        tier: Tier::Lib,
                        script_mode: script,
                        docs: vec![doc("bigin.md", Format::Md, tests)],
                        cli: Cli::default(),
                        sim,
                        pretty: false,
                        check: vec!["C13".into(), "C14".into(), "C05".into(), "C20".into()],
                        partner: None,
                        turns: None,
                    });
                }
            }
        }
    }
    out
}

/// single-script mode: a command ends the script with `exit c`; the test cases after it never
/// ran - whatever their expectations are (nothing printed, exit code c expected ...)
pub fn lane_script_exit(seed: u64) -> Vec<Scenario> {
    let mut out = vec![];
    let mut g = G::new(seed ^ 0x5e17);
    for code in [0i32, 3, 80, 255] {
        for pos in 0..3usize {
            for later in ["silent-expects-code", "silent-expects-0", "normal"] {
                let mut sim = base_sim(g.rng.next_u64());
                let mut tests = vec![];
                for k in 0..4 {
                    let plan = if k == pos {
                        Plan::new(Fate::Code { code, expected: Some(code), exit_shell: true })
                    } else if k > pos {
                        match later {
                            "silent-expects-code" => {
                                let mut p = Plan::new(Fate::Code { code, expected: Some(code), exit_shell: false });
                                p.lines = 0;
                                p
                            }
                            "silent-expects-0" => {
                                let mut p = Plan::new(Fate::Pass);
                                p.lines = 0;
                                p
                            }
                            _ => Plan::new(Fate::Pass),
                        }
                    } else {
                        Plan::new(Fate::Pass)
                    };
                    tests.push(g.test(&plan, &mut sim.programs));
                }
                let mut sc = Scenario {
                    lane: format!("script-exit/code{}/pos{}/{}", code, pos, later),
                    tier: Tier::Lib,
                    script_mode: true,
                    docs: vec![doc("exit.md", Format::Md, tests)],
                    cli: Cli::default(),
                    sim,
                    pretty: false,
                    check: vec!["C05".into(), "C15".into(), "C20".into(), "C13".into()],
                    partner: None,
                    turns: None,
                };
                fill_expectations(&mut sc, &mut g);
                out.push(sc);
            }
        }
    }
    out
}

pub fn lane_early_exit(seed: u64) -> Vec<Scenario> {
    let mut out = vec![];
    let mut g = G::new(seed ^ 0xea71);
    for (script, close_stdin) in [(false, false), (false, true)] {
        for kib in [1usize, 8, 30, 63, 64, 65, 71, 128, 205, 1024] {
            for cap in [65536usize, 4096] {
                let mut sim = base_sim(g.rng.next_u64());
                sim.swarm.pipe_capacity = cap;
                let nonce = g.nonce();
                // (the second family: the shell closes its standard input - `exec <&-` - and runs
                // on for five seconds under a limit of two: it is alive, only not reading)
                sim.programs.insert(nonce.clone(), if close_stdin { vec![Op::CloseStdin, Op::Sleep { ns: 5 * SEC }, Op::Status { code: 3 }] } else { vec![Op::ExitShell { code: 3 }] });
                let mut expr = format!("vsim-cmd @vs:{}@ exit 3 @ve:{}@\n", nonce, nonce);
                let filler_line = ": filler filler filler filler filler filler filler filler filler filler\n";
                while expr.len() < kib * 1024 {
                    expr.push_str(filler_line);
                }
                expr.push_str(": end");
                let t = Test {
                    title: format!("J {}", nonce),
                    expr,
                    nonce,
                    expected_code: Some(3),
                    expectations: vec![],
                    expect_match: true,
                    cfg: if close_stdin { TestCfg { timeout_ns: Some(2 * SEC), ..Default::default() } } else { TestCfg::default() },
                };
                out.push(Scenario {
                    lane: format!("bytes/{}/{}KiB/cap{}", if close_stdin { "closed-stdin" } else { "early-exit" }, kib, cap),
                    tier: Tier::Lib,
                    script_mode: script,
                    docs: vec![doc("early.md", Format::Md, vec![t])],
                    cli: Cli::default(),
                    sim,
                    pretty: false,
                    check: vec!["C13".into(), "C14".into(), "C05".into()],
                    partner: None,
                    turns: None,
                });
            }
        }
    }
    out
}
