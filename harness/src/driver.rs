//! Run lanes in parallel, judge, triage against known findings, minimise, replay, evidence.

use std::collections::BTreeMap;
use std::collections::BTreeSet;
use std::sync::atomic::AtomicUsize;
use std::sync::atomic::Ordering;
use std::sync::Arc;
use std::sync::Mutex;
use std::time::Instant;

use scrut::verif_sim::scenario::*;
use serde::Deserialize;
use serde::Serialize;

use crate::facts::Facts;
use crate::obs::*;
use crate::oracle::*;
use crate::scn::*;

pub fn run_scenario(sc: &Scenario) -> Observation {
    match sc.tier {
        Tier::Lib => crate::runlib::run_lib(sc),
        Tier::Cli => crate::runcli::run_cli(sc, if sc.pretty { sc.cli.renderer.as_deref().unwrap_or("pretty") } else { "json" }),
    }
}

#[derive(Clone, Debug, Serialize, Deserialize)]
pub struct ReplayFile {
    pub property: String,
    pub class: String,
    pub detail: String,
    pub scenario: Scenario,
}

#[derive(Default)]
pub struct Stats {
    pub runs: u64,
    pub sim_time_ns: u128,
    pub events: u64,
    pub spawns: u64,
    pub signatures: BTreeSet<String>,
    pub nontrivial: u64,
    pub fault_fired: BTreeMap<String, u64>,
    pub probes: BTreeMap<String, u64>,
    pub lanes: BTreeMap<String, u64>,
    pub samples: Vec<serde_json::Value>,
    pub harness_errors: Vec<String>,
    pub by_tier: BTreeMap<String, u64>,
}

impl Stats {
    pub fn merge(&mut self, o: Stats) {
        self.runs += o.runs;
        self.sim_time_ns += o.sim_time_ns;
        self.events += o.events;
        self.spawns += o.spawns;
        self.nontrivial += o.nontrivial;
        self.signatures.extend(o.signatures);
        for (k, v) in o.fault_fired {
            *self.fault_fired.entry(k).or_insert(0) += v;
        }
        for (k, v) in o.probes {
            *self.probes.entry(k).or_insert(0) += v;
        }
        for (k, v) in o.lanes {
            *self.lanes.entry(k).or_insert(0) += v;
        }
        for (k, v) in o.by_tier {
            *self.by_tier.entry(k).or_insert(0) += v;
        }
        if self.samples.len() < 3 {
            self.samples.extend(o.samples);
        }
    }
}

pub struct Outcome {
    pub idx: usize,
    pub violations: Vec<Violation>,
    pub harness_error: Option<String>,
}

fn signature(sc: &Scenario, obs: &Observation, facts: &Facts, judgements: &[DocJudgement]) -> (String, bool) {
    let mut s = String::new();
    s.push_str(match sc.tier {
        Tier::Lib => "L",
        Tier::Cli => "C",
    });
    s.push_str(if sc.script_mode { "s|" } else { "p|" });
    for (d, j) in obs.docs.iter().zip(judgements.iter()) {
        s.push_str(&format!("{:?}:", j.stop));
        for (t, tj) in d.tests.iter().zip(j.tests.iter()) {
            let prog = sc.sim.programs.get(&t.nonce);
            let fate = prog
                .and_then(|p| p.last())
                .map(|op| match op {
                    Op::Status { code } => format!("s{}", code),
                    Op::ExitShell { code } => format!("x{}", code),
                    Op::Die { sig } => format!("d{}", sig),
                    Op::Hang => "h".into(),
                    _ => "o".into(),
                })
                .unwrap_or_default();
            let comm = tj
                .pid
                .and_then(|p| facts.procs.get(p as usize))
                .and_then(|p| p.comm_result().map(|s| s.to_string()))
                .unwrap_or_else(|| "-".into());
            s.push_str(&format!("{}/{}/{},", fate, t.report.short(), comm));
        }
        s.push(';');
    }
    let mut fk: Vec<&String> = facts.fault_kinds.iter().collect();
    fk.sort();
    fk.dedup();
    s.push_str(&format!("|f{:?}|x{:?}|a{:?}", fk, obs.exit_status, obs.sim_abort.is_some()));
    if let Some(d) = &obs.duo {
        // the interleaving is part of what makes a duo run distinct
        s.push_str(&format!("|duo{:?}x{:?}:{}", d.partner.exit_status, d.labels.len(), d.labels.join(",")));
    }
    let nontrivial = !facts.procs.is_empty() || !facts.spawn_failed.is_empty();
    (s, nontrivial)
}

fn probes(sc: &Scenario, obs: &Observation, facts: &Facts, judgements: &[DocJudgement], st: &mut Stats) {
    let mut hit = |k: &str| *st.probes.entry(k.to_string()).or_insert(0) += 1;
    for p in &facts.procs {
        match p.comm_result() {
            Some("timed_out") => {
                hit("comm timed out");
                if p.exit.is_none() || p.exit_seq > facts.drain_begin_seq.unwrap_or(u64::MAX) {
                    hit("child alive after timeout");
                }
                if p.comm_begin.map(|c| c.2 == Some(0)).unwrap_or(false) {
                    hit("limit_time(0)");
                }
            }
            Some(r) if r.starts_with("err:BrokenPipe") => hit("EPIPE on stdin"),
            Some(r) if r.starts_with("err:Interrupted") => hit("EINTR in poll"),
            Some(r) if r.starts_with("err") => hit("read error on pipe"),
            _ => {}
        }
        if p.exit_sig() == Some(13) {
            hit("child got SIGPIPE");
        }
        if p.stdin_kind == "file" {
            hit("detached child");
        }
        if p.cmds.iter().any(|c| c.blocked_ns > 0) {
            hit("child blocked on full pipe");
        }
        if p.state_read.as_ref().map(|s| s.1.is_some()).unwrap_or(false) {
            hit("state carried to next process");
        }
    }
    if !facts.spawn_failed.is_empty() {
        hit("spawn failure");
    }
    if !facts.stalls.is_empty() {
        hit("parent stalled");
    }
    if facts.hang.is_some() {
        hit("scrut blocks forever");
    }
    for j in judgements {
        match &j.stop {
            Some(Stop::Skip(_)) => hit("document skipped"),
            Some(Stop::Timeout(_)) => hit("document stopped by timeout"),
            Some(Stop::NoCode(_)) => hit("document stopped: no exit code"),
            Some(Stop::RunFail(_)) => hit("document stopped: execution error"),
            None => hit("document ran to the end"),
        }
    }
    for (root, e) in &obs.fs_after {
        let _ = root;
        if !e.is_empty() {
            hit("residue on disk after run");
        }
    }
    if !facts.peers.is_empty() {
        hit("peer interference");
    }
    if sc.sim.swarm.pipe_capacity == 4096 {
        hit("4 KiB pipes");
    }
    if let Some(d) = &obs.duo {
        hit("duo: two scrut processes at the same time");
        *st.probes.entry("duo: turn decisions".into()).or_insert(0) += d.turns.len() as u64;
        *st.probes.entry("duo: switches between the processes".into()).or_insert(0) += d.switches as u64;
        let last = |who: &str| d.labels.iter().rposition(|l| l.starts_with(who));
        if let (Some(a), Some(b)) = (last("a:"), d.labels.iter().position(|l| l.starts_with("b:") && !l.ends_with("start"))) {
            if a > b {
                *st.probes.entry("duo: one process cleaned up while the other was in the middle of its run".into()).or_insert(0) += 1;
            }
        }
    }
    let _ = obs;
}

pub struct Batch {
    pub scenarios: Vec<Scenario>,
}

/// Run all scenarios on `threads` workers. Returns per-scenario outcomes (violations already
/// restricted to the properties the scenario is allowed to judge) and aggregated statistics.
pub fn run_batch(scenarios: Arc<Vec<Scenario>>, threads: usize, want_samples: usize) -> (Vec<Outcome>, Stats) {
    let next = Arc::new(AtomicUsize::new(0));
    let outcomes: Arc<Mutex<Vec<Outcome>>> = Arc::new(Mutex::new(vec![]));
    let stats: Arc<Mutex<Stats>> = Arc::new(Mutex::new(Stats::default()));
    let mut handles = vec![];
    let n = scenarios.len();
    for _ in 0..threads.max(1) {
        let scenarios = scenarios.clone();
        let next = next.clone();
        let outcomes = outcomes.clone();
        let stats = stats.clone();
        let h = std::thread::Builder::new()
            .stack_size(1 << 30)
            .spawn(move || {
                let mut local = Stats::default();
                let mut local_out = vec![];
                loop {
                    let i = next.fetch_add(1, Ordering::SeqCst);
                    if i >= n {
                        break;
                    }
                    let sc = &scenarios[i];
                    // (a panic of the harness itself must not take the worker - and with it
                    // every later scenario - away silently)
                    let obs = match std::panic::catch_unwind(std::panic::AssertUnwindSafe(|| run_scenario(sc))) {
                        Ok(o) => o,
                        Err(e) => {
                            let msg = e.downcast_ref::<String>().cloned().or_else(|| e.downcast_ref::<&str>().map(|s| s.to_string())).unwrap_or_else(|| "?".into());
                            Observation { harness_error: Some(format!("the harness panicked while running the scenario: {}", msg)), ..Default::default() }
                        }
                    };
                    local.runs += 1;
                    *local.by_tier.entry(format!("{:?}", sc.tier)).or_insert(0) += 1;
                    *local.lanes.entry(sc.lane.split('/').next().unwrap_or("").to_string()).or_insert(0) += 1;
                    let mut herr = obs.harness_error.clone().or_else(|| obs.confused());
                    let judged = std::panic::catch_unwind(std::panic::AssertUnwindSafe(|| judge(sc, &obs)));
                    let (viol, facts, judgements) = match judged {
                        Ok(j) => j,
                        Err(e) => {
                            let msg = e.downcast_ref::<String>().cloned().or_else(|| e.downcast_ref::<&str>().map(|s| s.to_string())).unwrap_or_else(|| "?".into());
                            herr = Some(format!("the harness panicked while judging the scenario: {}", msg));
                            (vec![], Facts::default(), vec![])
                        }
                    };
                    local.sim_time_ns += obs.end_time_ns as u128;
                    local.events += obs.events;
                    local.spawns += facts.procs.len() as u64;
                    for k in &facts.fault_kinds {
                        let kind = k.split(':').next().unwrap_or(k).to_string();
                        *local.fault_fired.entry(kind).or_insert(0) += 1;
                    }
                    let (sig, nontrivial) = signature(sc, &obs, &facts, &judgements);
                    if nontrivial {
                        local.nontrivial += 1;
                        local.signatures.insert(sig);
                    }
                    probes(sc, &obs, &facts, &judgements, &mut local);
                    if local.samples.len() < want_samples && (i % (n / want_samples.max(1)).max(1) == 0) {
                        local.samples.push(sample_json(sc, &obs));
                    }
                    if obs.panic.is_some() && herr.is_none() {
                        // a panic inside scrut is an observation, not a harness error; it is judged
                        // by the oracles through the missing reports
                    }
                    if herr.is_none() && obs.sim_abort.as_deref() == Some("event_cap") {
                        herr = None;
                    }
                    let violations: Vec<Violation> = viol.into_iter().filter(|v| sc.check.contains(&v.property)).collect();
                    local_out.push(Outcome {
                        idx: i,
                        violations,
                        harness_error: herr,
                    });
                }
                let mut st = stats.lock().unwrap();
                st.runs += local.runs;
                st.sim_time_ns += local.sim_time_ns;
                st.events += local.events;
                st.spawns += local.spawns;
                st.nontrivial += local.nontrivial;
                st.signatures.extend(local.signatures);
                for (k, v) in local.fault_fired {
                    *st.fault_fired.entry(k).or_insert(0) += v;
                }
                for (k, v) in local.probes {
                    *st.probes.entry(k).or_insert(0) += v;
                }
                for (k, v) in local.lanes {
                    *st.lanes.entry(k).or_insert(0) += v;
                }
                for (k, v) in local.by_tier {
                    *st.by_tier.entry(k).or_insert(0) += v;
                }
                st.samples.extend(local.samples);
                outcomes.lock().unwrap().extend(local_out);
            })
            .expect("spawn worker");
        handles.push(h);
    }
    for h in handles {
        let _ = h.join();
    }
    let mut o = Arc::try_unwrap(outcomes).ok().unwrap().into_inner().unwrap();
    o.sort_by_key(|x| x.idx);
    // every scenario must have an outcome: a worker that went away is a harness error, never a pass
    let have: BTreeSet<usize> = o.iter().map(|x| x.idx).collect();
    for i in 0..n {
        if !have.contains(&i) {
            o.push(Outcome { idx: i, violations: vec![], harness_error: Some("no outcome: the worker running this scenario went away".into()) });
        }
    }
    o.sort_by_key(|x| x.idx);
    let st = Arc::try_unwrap(stats).ok().unwrap().into_inner().unwrap();
    (o, st)
}

pub fn sample_json(sc: &Scenario, obs: &Observation) -> serde_json::Value {
    let reports: Vec<serde_json::Value> = obs
        .docs
        .iter()
        .map(|d| {
            serde_json::json!({
                "doc": sc.docs[d.doc].path,
                "reports": d.tests.iter().map(|t| format!("{}={}", t.nonce, t.report.short())).collect::<Vec<_>>(),
            })
        })
        .collect();
    let programs: BTreeMap<&String, Vec<String>> = sc
        .sim
        .programs
        .iter()
        .map(|(k, v)| (k, v.iter().map(|op| short_op(op)).collect()))
        .collect();
    serde_json::json!({
        "lane": sc.lane,
        "tier": format!("{:?}", sc.tier),
        "script_mode": sc.script_mode,
        "documents": sc.docs.iter().map(|d| serde_json::json!({
            "path": d.path, "format": format!("{:?}", d.format), "total_timeout_ns": d.total_timeout_ns,
            "tests": d.tests.iter().map(|t| serde_json::json!({"nonce": t.nonce, "expected_code": t.expected_code,
                "expectations": t.expectations.len(), "cfg": t.cfg})).collect::<Vec<_>>()
        })).collect::<Vec<_>>(),
        "programs": programs,
        "faults": sc.sim.faults,
        "swarm": sc.sim.swarm,
        "observed": reports,
        "exit_status": obs.exit_status,
        "virtual_time_ns": obs.end_time_ns,
        "events_logged": obs.log.len(),
    })
}

fn short_op(op: &Op) -> String {
    match op {
        Op::Out { fd, data } => format!("out{}[{}]", fd, data.0.len()),
        Op::OutRepeat { fd, unit, times } => format!("out{}[{}x{}]", fd, unit.0.len(), times),
        Op::Sleep { ns } => format!("sleep {}", crate::runcli::dur(*ns)),
        Op::Status { code } => format!("status {}", code),
        Op::ExitShell { code } => format!("exit {}", code),
        Op::Die { sig } => format!("die sig{}", sig),
        Op::Hang => "hang".into(),
        Op::CloseFd { fd } => format!("close {}", fd),
        Op::Bg { hold, life_ns, .. } => format!("bg hold={} {}", hold, crate::runcli::dur(*life_ns)),
        Op::Touch { rel } => format!("touch {}", rel),
        Op::CloseStdin => "close stdin".into(),
        Op::DeepTree { levels, name_len } => format!("tree {}x{}", levels, name_len),
    }
}

// ------------------------------------------------------------------ minimisation

fn has_class(sc: &Scenario, property: &str, class: &str) -> bool {
    let obs = run_scenario(sc);
    if obs.harness_error.is_some() {
        return false;
    }
    let (viol, _, _) = judge(sc, &obs);
    viol.iter().any(|v| v.property == property && v.class == class)
}

pub fn candidates_pub(sc: &Scenario) -> Vec<Scenario> {
    candidates(sc)
}

fn candidates(sc: &Scenario) -> Vec<Scenario> {
    let mut out = vec![];
    // drop a document
    if sc.docs.len() > 1 {
        for i in 0..sc.docs.len() {
            let mut c = sc.clone();
            c.docs.remove(i);
            if c.docs.iter().any(|d| d.main) {
                out.push(c);
            }
        }
    }
    // drop a test case
    for (di, d) in sc.docs.iter().enumerate() {
        if d.tests.len() > 1 {
            for ti in (0..d.tests.len()).rev() {
                let mut c = sc.clone();
                let t = c.docs[di].tests.remove(ti);
                c.sim.programs.remove(&t.nonce);
                out.push(c);
            }
        }
    }
    // drop faults, peers
    for i in 0..sc.sim.faults.len() {
        let mut c = sc.clone();
        c.sim.faults.remove(i);
        out.push(c);
    }
    if !sc.sim.peer.is_empty() {
        let mut c = sc.clone();
        c.sim.peer.clear();
        out.push(c);
    }
    // calm the swarm
    if sc.sim.swarm != Swarm::default() {
        let mut c = sc.clone();
        c.sim.swarm = Swarm::default();
        out.push(c);
        let mut c = sc.clone();
        c.sim.swarm.stall_per_mille = 0;
        c.sim.swarm.syscall_cost_ns = 0;
        out.push(c);
    }
    // drop ops, shrink payloads
    for (n, ops) in &sc.sim.programs {
        for i in 0..ops.len() {
            if ops.len() > 1 {
                let mut c = sc.clone();
                c.sim.programs.get_mut(n).unwrap().remove(i);
                out.push(c);
            }
            match &ops[i] {
                Op::Out { fd, data } if data.0.len() > 1 => {
                    let mut c = sc.clone();
                    let half = data.0[..data.0.len() / 2].to_vec();
                    c.sim.programs.get_mut(n).unwrap()[i] = Op::Out { fd: *fd, data: Bytes(half) };
                    out.push(c);
                }
                Op::OutRepeat { fd, unit, times } if *times > 1 => {
                    let mut c = sc.clone();
                    c.sim.programs.get_mut(n).unwrap()[i] = Op::OutRepeat {
                        fd: *fd,
                        unit: unit.clone(),
                        times: times / 2,
                    };
                    out.push(c);
                }
                _ => {}
            }
        }
    }
    // simplify configuration
    for (di, d) in sc.docs.iter().enumerate() {
        if d.defaults != TestCfg::default() {
            let mut c = sc.clone();
            c.docs[di].defaults = TestCfg::default();
            out.push(c);
        }
        if d.total_timeout_ns.is_some() {
            let mut c = sc.clone();
            c.docs[di].total_timeout_ns = None;
            out.push(c);
        }
        for (ti, t) in d.tests.iter().enumerate() {
            if t.cfg != TestCfg::default() {
                let mut c = sc.clone();
                c.docs[di].tests[ti].cfg = TestCfg::default();
                out.push(c);
                macro_rules! unset {
                    ($f:ident) => {
                        if t.cfg.$f.is_some() {
                            let mut c = sc.clone();
                            c.docs[di].tests[ti].cfg.$f = None;
                            out.push(c);
                        }
                    };
                }
                unset!(timeout_ns);
                unset!(wait);
                unset!(detached);
                unset!(output_stream);
                unset!(keep_crlf);
                unset!(strip_ansi);
                unset!(skip_code);
            }
            if t.expr.len() > 200 {
                let mut c = sc.clone();
                let cut = t.expr.len() / 2;
                let mut e = t.expr.clone();
                while !e.is_char_boundary(cut.min(e.len())) {
                    e.pop();
                }
                e.truncate(cut.max(60));
                c.docs[di].tests[ti].expr = e;
                out.push(c);
            }
        }
    }
    if sc.cli != Cli::default() {
        let mut c = sc.clone();
        c.cli = Cli {
            work_directory: sc.cli.work_directory,
            ..Cli::default()
        };
        out.push(c);
    }
    // duo runs: a simpler partner, a shorter interleaving
    if let Some(p) = &sc.partner {
        for pc in candidates(p).into_iter().take(40) {
            let mut c = sc.clone();
            c.partner = Some(Box::new(pc));
            out.push(c);
        }
        if let Some(t) = &sc.turns {
            if !t.is_empty() {
                let mut c = sc.clone();
                c.turns = Some(t[..t.len() / 2].to_vec());
                out.push(c);
                // (strict alternation is often enough)
                let mut c = sc.clone();
                c.turns = Some(vec![]);
                out.push(c);
            }
        }
    }
    // shorten the tape
    if let Some(t) = &sc.sim.tape {
        if !t.is_empty() {
            let mut c = sc.clone();
            c.sim.tape = Some(t[..t.len() / 2].to_vec());
            out.push(c);
            let mut c = sc.clone();
            c.sim.tape = Some(vec![]);
            out.push(c);
        }
    }
    out
}

/// delta debugging while the same (property, class) persists
pub fn minimise(sc: &Scenario, property: &str, class: &str, budget_runs: usize) -> Scenario {
    let mut best = sc.clone();
    // pin the schedule: replay from the recorded tape
    let obs = run_scenario(&best);
    let mut pinned = best.clone();
    pinned.sim.tape = Some(obs.tape.clone());
    if let (Some(d), Some(p)) = (&obs.duo, pinned.partner.as_mut()) {
        // a duo run: the partner's schedule and the interleaving are pinned as well
        p.sim.tape = Some(d.partner.tape.clone());
        pinned.turns = Some(d.turns.clone());
    }
    let mut used = 1;
    if has_class(&pinned, property, class) {
        best = pinned;
    }
    used += 1;
    let mut progress = true;
    while progress && used < budget_runs {
        progress = false;
        for c in candidates(&best) {
            if used >= budget_runs {
                break;
            }
            used += 1;
            if has_class(&c, property, class) {
                best = c;
                progress = true;
                break;
            }
        }
    }
    best
}

pub fn normalise(s: &str) -> String {
    // random path components and the divider salt become ordinal-free tokens
    let re1 = regex::Regex::new(r"(execution|temp|\.state|vl|vc)\.[A-Za-z0-9]{6}").unwrap();
    let re2 = regex::Regex::new(r"EXECDIVIDER::[A-Za-z0-9]{20}::").unwrap();
    let re3 = regex::Regex::new(r"\.tmp[A-Za-z0-9]{6}").unwrap();
    let s = re1.replace_all(s, "$1.XXXXXX");
    let s = re2.replace_all(&s, "EXECDIVIDER::SALT::");
    re3.replace_all(&s, ".tmpXXXXXX").into_owned()
}

pub fn normalised_log(obs: &Observation) -> String {
    let mut s = String::new();
    for e in &obs.log {
        if let LogEv::FsSnapshot { phase, root, entries } = &e.ev {
            // randomly named directories sort differently from run to run
            let mut es: Vec<String> = entries.iter().map(|x| normalise(x)).collect();
            es.sort();
            s.push_str(&format!("{{\"seq\":{},\"t\":{},\"ev\":\"fs_snapshot\",\"phase\":{:?},\"root\":{:?},\"entries\":{:?}}}\n", e.seq, e.t, phase, normalise(root), es));
            continue;
        }
        s.push_str(&normalise(&serde_json::to_string(e).unwrap()));
        s.push('\n');
    }
    for d in &obs.docs {
        s.push_str(&normalise(&serde_json::to_string(d).unwrap()));
        s.push('\n');
    }
    s.push_str(&format!("exit={:?} sig={:?} abort={:?}\n", obs.exit_status, obs.exit_signal, obs.sim_abort));
    if let Some(d) = &obs.duo {
        s.push_str(&format!("duo turns: {:?}\n", d.labels));
        s.push_str(&normalised_log(&d.partner));
    }
    s
}

pub fn wall() -> Instant {
    Instant::now()
}
