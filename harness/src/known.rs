//! Known findings (DESIGN §5.5): genuine defects that are recorded rather than repaired.
//! The file /verif/known-findings.json is committed and never written at run time. Each
//! entry names a predicate over (scenario, violation); only `status: known` entries suppress.

use scrut::verif_sim::scenario::*;
use serde::Deserialize;
use serde::Serialize;

use crate::oracle::Violation;
use crate::scn::*;

#[derive(Clone, Debug, Serialize, Deserialize)]
pub struct Finding {
    pub id: String,
    pub property: String,
    /// "known" | "fixed"
    pub status: String,
    #[serde(default)]
    pub commit: Option<String>,
    pub what: String,
    /// violation classes this finding can show up as
    pub classes: Vec<String>,
    /// name of the predicate (below) that identifies exactly this defect
    pub predicate: String,
    /// one-line form: "fixed: property=<id> <commit> <what failed>" / "known: property=<id> <what fails>"
    #[serde(default)]
    pub record: String,
}

#[derive(Clone, Debug, Default, Serialize, Deserialize)]
pub struct KnownFile {
    pub findings: Vec<Finding>,
    #[serde(default)]
    pub format: String,
}

pub fn load() -> KnownFile {
    let p = std::env::var("VSIM_KNOWN").unwrap_or_else(|_| "/verif/known-findings.json".into());
    match std::fs::read_to_string(&p) {
        Ok(t) => serde_json::from_str(&t).unwrap_or_else(|e| {
            eprintln!("vsim: cannot parse {}: {}", p, e);
            std::process::exit(2);
        }),
        Err(_) => KnownFile::default(),
    }
}

fn script_mode_of(sc: &Scenario) -> bool {
    match sc.tier {
        Tier::Lib => sc.script_mode,
        Tier::Cli => sc.cli.cram_compat || sc.docs.iter().filter(|d| d.main).all(|d| d.format == Format::Cram),
    }
}

pub fn predicate(name: &str, sc: &Scenario, v: &Violation) -> bool {
    match name {
        // H: single-script mode reports a document timeout on the first test case whichever
        // command was running
        "script-mode-document-timeout-attribution" => {
            let in_script_doc = v
                .nonce
                .as_ref()
                .and_then(|n| sc.find_test(n))
                .map(|(d, _)| d.format == Format::Cram)
                .unwrap_or(false);
            script_mode_of(sc) || in_script_doc
        }
        // J: the shell exits before having read a script that is larger than what the pipe
        // still holds; the subprocess crate then reports TimedOut at once (or EPIPE)
        "early-exit-with-unread-stdin" => {
            let Some(n) = &v.nonce else { return false };
            let Some((_, t)) = sc.find_test(n) else { return false };
            let ops = sc.sim.programs.get(n).cloned().unwrap_or_default();
            // (closing its standard input is the same to the parent: the script pipe has no reader)
            let exits_early = ops.iter().any(|o| matches!(o, Op::ExitShell { .. } | Op::Die { .. } | Op::CloseStdin));
            let marker_end = t.expr.find("@ve:").map(|i| i + 17).unwrap_or(t.expr.len());
            let unread = t.expr.len().saturating_sub(marker_end);
            // (how much has to be left unread depends on the pipe capacity and on how far scrut got
            // with feeding the script when the shell went away, i.e. on the schedule)
            exits_early && unread > 16
        }
        // R: a command that writes without pause keeps the subprocess crate's read loop busy;
        // the loop looks at the deadline only when nothing is ready to be read
        "output-flowing-at-deadline" => {
            let Some(n) = &v.nonce else { return false };
            let ops = sc.sim.programs.get(n).cloned().unwrap_or_default();
            let total: u64 = ops
                .iter()
                .map(|o| match o {
                    Op::Out { data, .. } => data.0.len() as u64,
                    Op::OutRepeat { unit, times, .. } => unit.0.len() as u64 * *times,
                    _ => 0,
                })
                .sum();
            v.detail.contains("still reading") && total >= 256 * 1024
        }
        // C: single-script mode recognises any output line containing the divider prefix as a
        // divider (the salt is never compared)
        "output-contains-divider-prefix" => sc.sim.programs.values().any(|ops| {
            ops.iter().any(|op| match op {
                Op::Out { data, .. } => crate::facts::find(&data.0, b"~~~~~~~~EXECDIVIDER::").is_some(),
                Op::OutRepeat { unit, .. } => crate::facts::find(&unit.0, b"~~~~~~~~EXECDIVIDER::").is_some(),
                _ => false,
            })
        }),
        _ => false,
    }
}

pub fn matching<'a>(k: &'a KnownFile, sc: &Scenario, v: &Violation) -> Option<&'a Finding> {
    k.findings.iter().find(|f| {
        f.status == "known" && f.property == v.property && f.classes.contains(&v.class) && predicate(&f.predicate, sc, v)
    })
}
