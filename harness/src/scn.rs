//! Scenario = everything explicit (DESIGN §5.1). A scenario plus a tape is one exactly
//! repeatable execution; the replay file is the serialised scenario with `sim.tape` filled in.

use std::collections::BTreeMap;

use scrut::verif_sim::scenario::*;
use serde::Deserialize;
use serde::Serialize;

#[derive(Clone, Copy, Debug, PartialEq, Eq, Serialize, Deserialize)]
#[serde(rename_all = "snake_case")]
pub enum Tier {
    /// in-process: the library's executors against simulated processes
    Lib,
    /// the hooked `scrut` binary, one OS process per run
    Cli,
}

#[derive(Clone, Copy, Debug, PartialEq, Eq, Serialize, Deserialize)]
#[serde(rename_all = "snake_case")]
pub enum Format {
    Md,
    Cram,
}

#[derive(Clone, Copy, Debug, PartialEq, Eq, Serialize, Deserialize)]
#[serde(rename_all = "snake_case")]
pub enum Stream {
    Stdout,
    Stderr,
    Combined,
}

#[derive(Clone, Debug, PartialEq, Eq, Serialize, Deserialize)]
pub struct Wait {
    pub timeout_ns: u64,
    pub path: Option<String>,
}

/// per-test configuration keys; None = not set at this layer
#[derive(Clone, Debug, Default, PartialEq, Eq, Serialize, Deserialize)]
pub struct TestCfg {
    #[serde(default, skip_serializing_if = "Option::is_none")]
    pub timeout_ns: Option<u64>,
    #[serde(default, skip_serializing_if = "Option::is_none")]
    pub wait: Option<Wait>,
    #[serde(default, skip_serializing_if = "Option::is_none")]
    pub detached: Option<bool>,
    #[serde(default, skip_serializing_if = "Option::is_none")]
    pub output_stream: Option<Stream>,
    #[serde(default, skip_serializing_if = "Option::is_none")]
    pub keep_crlf: Option<bool>,
    #[serde(default, skip_serializing_if = "Option::is_none")]
    pub strip_ansi: Option<bool>,
    #[serde(default, skip_serializing_if = "Option::is_none")]
    pub skip_code: Option<i32>,
    #[serde(default, skip_serializing_if = "BTreeMap::is_empty")]
    pub env: BTreeMap<String, String>,
}

impl TestCfg {
    /// self wins over `lower`
    pub fn over(&self, lower: &TestCfg) -> TestCfg {
        let mut env = lower.env.clone();
        for (k, v) in &self.env {
            env.insert(k.clone(), v.clone());
        }
        TestCfg {
            timeout_ns: self.timeout_ns.or(lower.timeout_ns),
            wait: self.wait.clone().or_else(|| lower.wait.clone()),
            detached: self.detached.or(lower.detached),
            output_stream: self.output_stream.or(lower.output_stream),
            keep_crlf: self.keep_crlf.or(lower.keep_crlf),
            strip_ansi: self.strip_ansi.or(lower.strip_ansi),
            skip_code: self.skip_code.or(lower.skip_code),
            env,
        }
    }
}

#[derive(Clone, Debug, PartialEq, Eq, Serialize, Deserialize)]
pub struct Test {
    pub nonce: String,
    pub title: String,
    /// the shell expression exactly as written in the document
    pub expr: String,
    pub expected_code: Option<i32>,
    /// raw expectation lines as written
    pub expectations: Vec<String>,
    /// whether the generator built the expectations to accept (true) or reject (false) the
    /// stream the program produces
    pub expect_match: bool,
    #[serde(default)]
    pub cfg: TestCfg,
}

#[derive(Clone, Debug, PartialEq, Eq, Serialize, Deserialize)]
pub struct Doc {
    /// path relative to the run's document root, e.g. "a/one.md"
    pub path: String,
    pub format: Format,
    /// front-matter `total_timeout`
    #[serde(default)]
    pub total_timeout_ns: Option<u64>,
    /// front-matter `defaults`
    #[serde(default)]
    pub defaults: TestCfg,
    /// front-matter prepend/append (paths relative to the document's directory)
    #[serde(default)]
    pub prepend: Vec<String>,
    #[serde(default)]
    pub append: Vec<String>,
    pub tests: Vec<Test>,
    /// given on the command line (true) or only referenced by prepend/append (false)
    #[serde(default = "yes")]
    pub main: bool,
    /// front-matter `shell:`
    #[serde(default)]
    pub shell: Option<String>,
    /// raw text override (unparsable documents); when set `tests` must be empty
    #[serde(default)]
    pub raw: Option<String>,
    /// Cram: all test cases in ONE block (one title, then `$` lines without titles or blank
    /// lines between them)
    #[serde(default)]
    pub compact: bool,
    /// Markdown: blank lines inside the front-matter (they count for line numbers)
    #[serde(default)]
    pub loose_front_matter: bool,
    /// Markdown: the opening fence lines end in a blank (editors leave them; CommonMark strips
    /// the info string)
    #[serde(default)]
    pub fence_trailing_space: bool,
    /// the file really lives here (relative to the document root); the directory part of `path`
    /// is then a symbolic link to the directory part of this
    #[serde(default)]
    pub stored_at: Option<String>,
    /// with `stored_at`: the document FILE is the symbolic link (not its directory)
    #[serde(default)]
    pub file_symlink: bool,
    /// Markdown: two blanks (odd test cases: a blank and a tab) between the language and the
    /// inline configuration of a fence
    #[serde(default)]
    pub fence_wide_gap: bool,
    /// Markdown: blocks are closed with a fence one backtick longer than the opening one
    #[serde(default)]
    pub long_closing_fence: bool,
    /// Markdown: this many blank lines in front of the second test case (a document in which
    /// test cases sit beyond line 65 536)
    #[serde(default)]
    pub pad_lines: usize,
    /// the document cannot be read: "dangling" = a symbolic link to nowhere, "not-utf8" = bytes
    /// that are not text (`raw` is set as well: such a document makes the run end with 1)
    #[serde(default, skip_serializing_if = "Option::is_none")]
    pub unreadable: Option<String>,
}

fn yes() -> bool {
    true
}

#[derive(Clone, Debug, Default, PartialEq, Eq, Serialize, Deserialize)]
pub struct Cli {
    /// further variables in the environment scrut itself is started in (`$ROOT` in a value is
    /// this run's private directory; a directory named by `PWD` is created)
    #[serde(default, skip_serializing_if = "Vec::is_empty")]
    pub host_env: Vec<(String, String)>,
    #[serde(default)]
    pub timeout_seconds: Option<u64>,
    /// the `--[no-]combine-output` / `--[no-]keep-output-crlf` flag that is given is preceded by
    /// its opposite on the same command line: the later one counts
    #[serde(default)]
    pub negated_first: bool,
    /// Some(true) = --combine-output, Some(false) = --no-combine-output
    #[serde(default)]
    pub combine_output: Option<bool>,
    #[serde(default)]
    pub keep_crlf: Option<bool>,
    #[serde(default)]
    pub cram_compat: bool,
    #[serde(default)]
    pub work_directory: bool,
    #[serde(default)]
    pub keep_tmp: bool,
    #[serde(default)]
    pub shell: Option<String>,
    /// -P / -A
    #[serde(default)]
    pub prepend: Vec<String>,
    #[serde(default)]
    pub append: Vec<String>,
    /// extra document paths that do not exist
    #[serde(default)]
    pub missing_paths: Vec<String>,
    /// "update": run `scrut update -y` instead of `scrut test` (clean-up and environment only)
    #[serde(default)]
    pub command: Option<String>,
    /// pass the directory of the main documents instead of the files (order is up to read_dir)
    #[serde(default)]
    pub as_directory: bool,
    /// name documents (and -P/-A) relative to the directory scrut is started in
    #[serde(default)]
    pub relative_paths: bool,
    /// `--debug`: scrut writes log lines all the time
    #[serde(default)]
    pub debug: bool,
    /// `-r diff` / `-r yaml` (only together with `pretty: true`, i.e. no report is parsed)
    #[serde(default)]
    pub renderer: Option<String>,
    /// `--verbose`
    #[serde(default)]
    pub verbose: bool,
    /// `--log-level <level>` (debug, trace, info ...): what scrut logs changes nothing of its work
    #[serde(default)]
    pub log_level: Option<String>,
}

#[derive(Clone, Debug, PartialEq, Eq, Serialize, Deserialize)]
pub struct Scenario {
    pub lane: String,
    pub tier: Tier,
    /// Lib tier: use the single-script executor (true) or the per-process one (false)
    #[serde(default)]
    pub script_mode: bool,
    pub docs: Vec<Doc>,
    #[serde(default)]
    pub cli: Cli,
    pub sim: SimScenario,
    /// Cli tier: ask for the pretty renderer (summary line) instead of the JSON report
    #[serde(default)]
    pub pretty: bool,
    /// which properties' oracles apply to this scenario (lanes built for one property may
    /// deliberately leave the envelope of another)
    pub check: Vec<String>,
    /// "duo" run: a second scrut process (its own scenario) runs AT THE SAME TIME on the same
    /// temporary root (and --work-directory); the two take turns at announced points
    #[serde(default, skip_serializing_if = "Option::is_none")]
    pub partner: Option<Box<Scenario>>,
    /// the interleaving of a duo run: which process (0 = this, 1 = the partner) is let go at each
    /// decision; None = drawn from `sim.seed`. Past its end, or when the named process cannot
    /// run, the first one that can is taken.
    #[serde(default, skip_serializing_if = "Option::is_none")]
    pub turns: Option<Vec<u8>>,
}

impl Scenario {
    pub fn all_tests(&self) -> impl Iterator<Item = (&Doc, &Test)> {
        self.docs.iter().flat_map(|d| d.tests.iter().map(move |t| (d, t)))
    }
    pub fn find_test(&self, nonce: &str) -> Option<(&Doc, &Test)> {
        self.all_tests().find(|(_, t)| t.nonce == nonce)
    }
}

// ------------------------------------------------------------------ effective configuration (the documented precedence)

pub const DEFAULT_SKIP_CODE: i32 = 80;
pub const DEFAULT_DOC_TIMEOUT_NS: u64 = 900 * 1_000_000_000;

#[derive(Clone, Debug, PartialEq, Eq)]
pub struct Effective {
    pub timeout_ns: Option<u64>,
    pub wait: Option<Wait>,
    pub detached: bool,
    pub stream: Stream,
    pub keep_crlf: bool,
    pub strip_ansi: bool,
    pub skip_code: i32,
}

pub fn format_defaults(cram: bool) -> TestCfg {
    if cram {
        TestCfg {
            output_stream: Some(Stream::Combined),
            keep_crlf: Some(true),
            skip_code: Some(DEFAULT_SKIP_CODE),
            ..Default::default()
        }
    } else {
        TestCfg {
            output_stream: Some(Stream::Stdout),
            skip_code: Some(DEFAULT_SKIP_CODE),
            ..Default::default()
        }
    }
}

impl Scenario {
    pub fn cli_cfg(&self) -> TestCfg {
        TestCfg {
            output_stream: self
                .cli
                .combine_output
                .map(|c| if c { Stream::Combined } else { Stream::Stdout }),
            keep_crlf: self.cli.keep_crlf,
            ..Default::default()
        }
    }

    /// Is the test executed and parsed with Cram semantics?
    pub fn cram_semantics(&self, test_doc: &Doc) -> bool {
        test_doc.format == Format::Cram || self.cli.cram_compat || (self.tier == Tier::Lib && self.script_mode)
    }

    /// command line > inline > defaults of the executing document > format default of the
    /// document the test was written in
    pub fn effective(&self, exec_doc: &Doc, test_doc: &Doc, t: &Test) -> Effective {
        // (for a prepended/appended test the generator never lets the executing document's
        // defaults disagree with the format defaults, so the order of the last two is moot)
        let c = self
            .cli_cfg()
            .over(&t.cfg)
            .over(&test_doc.defaults)
            .over(&format_defaults(self.cram_semantics(test_doc)))
            .over(&exec_doc.defaults);
        Effective {
            timeout_ns: c.timeout_ns,
            wait: c.wait,
            detached: c.detached.unwrap_or(false),
            stream: c.output_stream.unwrap_or(Stream::Stdout),
            keep_crlf: c.keep_crlf.unwrap_or(false),
            strip_ansi: c.strip_ansi.unwrap_or(false),
            skip_code: c.skip_code.unwrap_or(DEFAULT_SKIP_CODE),
        }
    }

    /// effective document limit in ns; None = unlimited
    pub fn doc_limit(&self, d: &Doc) -> Option<u64> {
        let v = self
            .cli
            .timeout_seconds
            .map(|s| s * 1_000_000_000)
            .or(d.total_timeout_ns)
            .unwrap_or(DEFAULT_DOC_TIMEOUT_NS);
        if v == 0 { None } else { Some(v) }
    }
}

/// the bytes a program writes, per descriptor and merged in program order
#[derive(Clone, Debug, Default)]
pub struct Written {
    pub fd1: Vec<u8>,
    pub fd2: Vec<u8>,
    pub merged: Vec<u8>,
    /// final status of the command, None = no exit code (signal / hang)
    pub status: Option<i32>,
    /// the shell itself ends inside this command
    pub exits_shell: bool,
    pub dies: Option<u8>,
    pub hangs: bool,
    pub sleep_ns: u64,
    pub has_bg_hold: bool,
    /// the command closes its own stdout or stderr (`exec >&-`)
    pub closes_streams: bool,
    /// the command closes the shell's standard input (`exec <&-`): the rest of the script is
    /// never read
    pub closes_stdin: bool,
}

pub fn written(ops: &[Op]) -> Written {
    let mut w = Written::default();
    let mut closed = [false, false];
    for op in ops {
        match op {
            Op::Out { fd, data } => {
                let i = if *fd == 2 { 1 } else { 0 };
                if closed[i] {
                    continue;
                }
                if i == 0 {
                    w.fd1.extend(&data.0)
                } else {
                    w.fd2.extend(&data.0)
                }
                w.merged.extend(&data.0);
            }
            Op::OutRepeat { fd, unit, times } => {
                let i = if *fd == 2 { 1 } else { 0 };
                if closed[i] {
                    continue;
                }
                for _ in 0..*times {
                    if i == 0 {
                        w.fd1.extend(&unit.0)
                    } else {
                        w.fd2.extend(&unit.0)
                    }
                    w.merged.extend(&unit.0);
                }
            }
            Op::Sleep { ns } => w.sleep_ns += ns,
            Op::Status { code } => {
                w.status = Some(*code);
                return w;
            }
            Op::ExitShell { code } => {
                w.status = Some(*code & 0xff);
                w.exits_shell = true;
                return w;
            }
            Op::Die { sig } => {
                w.dies = Some(*sig);
                return w;
            }
            Op::Hang => {
                w.hangs = true;
                return w;
            }
            Op::CloseFd { fd } => {
                closed[if *fd == 2 { 1 } else { 0 }] = true;
                w.closes_streams = true;
            }
            Op::Bg { hold, out_fd, out, .. } => {
                if *hold {
                    w.has_bg_hold = true;
                    // what a grandchild that holds the pipes writes before it goes away is
                    // output of this command (the generators put such an op last)
                    if !out.0.is_empty() {
                        let i = if *out_fd == 2 { 1 } else { 0 };
                        if !closed[i] {
                            if i == 0 {
                                w.fd1.extend(&out.0)
                            } else {
                                w.fd2.extend(&out.0)
                            }
                            w.merged.extend(&out.0);
                        }
                    }
                }
            }
            Op::Touch { .. } => {}
            Op::CloseStdin => w.closes_stdin = true,
            Op::DeepTree { .. } => {}
        }
    }
    w.status = Some(0);
    w
}

/// the documented output transformations
pub fn transform(bytes: &[u8], keep_crlf: bool) -> Vec<u8> {
    if keep_crlf {
        return bytes.to_vec();
    }
    let mut out = Vec::with_capacity(bytes.len());
    let mut i = 0;
    while i < bytes.len() {
        if bytes[i] == b'\r' && i + 1 < bytes.len() && bytes[i + 1] == b'\n' {
            out.push(b'\n');
            i += 2;
        } else {
            out.push(bytes[i]);
            i += 1;
        }
    }
    out
}

/// does a `--shell` / `shell:` value name something scrut can start? (bare names go through PATH)
pub fn shell_exists(s: &str) -> bool {
    if s.contains('/') {
        std::path::Path::new(s).exists()
    } else {
        ["/usr/local/bin", "/usr/bin", "/bin"]
            .iter()
            .any(|d| std::path::Path::new(&format!("{}/{}", d, s)).exists())
    }
}
