//! Run-level oracles: C12 (state protocol), C18 (environment, work directory, clean-up),
//! C20 (exit status).

use std::collections::BTreeMap;
use std::collections::BTreeSet;

use crate::obs::*;
use crate::oracle::*;
use crate::scn::*;

fn v(property: &str, class: &str, nonce: Option<&str>, detail: String) -> Violation {
    Violation {
        property: property.into(),
        class: class.into(),
        detail,
        nonce: nonce.map(|s| s.to_string()),
    }
}

pub fn check_run(ctx: &Ctx, judgements: &[DocJudgement], out: &mut Vec<Violation>) {
    check_state_protocol(ctx, judgements, out);
    if ctx.sc.tier == Tier::Cli {
        check_exit_status(ctx, judgements, out);
        check_env_cleanup(ctx, judgements, out);
    }
}

// ------------------------------------------------------------------ C12 (a): the Rust side of state persistence

fn check_state_protocol(ctx: &Ctx, judgements: &[DocJudgement], out: &mut Vec<Violation>) {
    let sc = ctx.sc;
    let mut dirs_seen: BTreeMap<String, usize> = BTreeMap::new();
    for (d, j) in ctx.obs.docs.iter().zip(judgements.iter()) {
        let main = &sc.docs[d.doc];
        let script = match sc.tier {
            Tier::Lib => sc.script_mode,
            Tier::Cli => main.format == Format::Cram || sc.cli.cram_compat,
        };
        if script {
            continue;
        }
        let list = exec_list(sc, main);
        // whatever scrut made of the way a test case ended: a test case that is not detached has
        // ended (or was ended by scrut) before its successor is started - its shell writes the
        // state when it exits, and its successor reads it when it starts
        {
            let mut prev: Option<(&str, &crate::facts::ProcFacts)> = None;
            for (td, t) in &list {
                let Some(&pid) = ctx.facts.delivered.get(&t.nonce).and_then(|p| p.first()) else { continue };
                let p = &ctx.facts.procs[pid as usize];
                if let Some((pn, pp)) = prev {
                    let ended = pp.exit.is_some() && pp.exit_seq < p.spawn_seq;
                    let killed = pp.killed.map(|k| k.2 < p.spawn_seq).unwrap_or(false);
                    // ... and when that shell was ended by a signal before it could write the state
                    // (SIGKILL from outside: no EXIT trap), what it changed is gone - a single
                    // session would be over; starting the next test case shows it a state from
                    // before its predecessor
                    let died_without_trap = pp.exit.as_ref().map(|e| e.1.starts_with("sig:") && !e.2).unwrap_or(false) && pp.killed.is_none();
                    if died_without_trap && pp.faults.is_empty() && pp.template.as_ref().map(|t| t.1 == Some(1)).unwrap_or(false) {
                        out.push(v(
                            "C12",
                            "state-not-carried",
                            Some(&t.nonce),
                            format!("test {} was started although the shell of test {} had been killed before it could write its state", t.nonce, pn),
                        ));
                    }
                    if !ended && !killed && pp.faults.is_empty() {
                        out.push(v(
                            "C12",
                            "state-not-carried",
                            Some(&t.nonce),
                            format!("test {} was started while the shell of test {} - which writes the state when it exits - was still running", t.nonce, pn),
                        ));
                    }
                }
                prev = if sc.effective(main, td, t).detached { None } else { Some((t.nonce.as_str(), p)) };
            }
        }
        let mut doc_dir: Option<String> = None;
        // blob the next test case must find
        let mut expect_blob: Option<String> = None;
        for (k, tj) in j.tests.iter().enumerate() {
            let Some(pid) = tj.pid else { continue };
            let p = &ctx.facts.procs[pid as usize];
            let (td, t) = list[k];
            let eff = sc.effective(main, td, t);
            // a detached test case is still one of the test cases: it, too, starts from what
            // the earlier ones left (WHICH state it finds is up to the scheduler - it runs next
            // to its successors - but it has to look)
            if eff.detached && p.template.is_none() && expect_blob.is_some() && p.cmds.iter().any(|c| c.nonce == t.nonce) {
                out.push(v(
                    "C12",
                    "state-not-carried",
                    Some(&tj.nonce),
                    format!("detached test {} ran its command without loading the state the previous test cases left ({:?})", tj.nonce, expect_blob),
                ));
            }
            let Some((state_dir, persist)) = &p.template else {
                continue; // the shell never got as far as its command
            };
            let Some(state_dir) = state_dir else { continue };
            // (where the state lives is scrut's business; what counts is what the next test finds)
            let _ = (&mut doc_dir, &mut dirs_seen, state_dir);
            let want_persist = if eff.detached { 0 } else { 1 };
            if let Some(pf) = persist {
                if *pf != want_persist {
                    out.push(v(
                        "C12",
                        if eff.detached { "detached-persists-state" } else { "state-not-persisted" },
                        Some(&tj.nonce),
                        format!("test {} (detached={}) runs with persist flag {}", tj.nonce, eff.detached, pf),
                    ));
                }
            }
            // what it found
            // (when a detached test case gets to read the state is up to the scheduler, and the
            // property only says that it leaves none behind)
            if let (Some((_, blob)), false) = (&p.state_read, eff.detached) {
                if blob != &expect_blob {
                    out.push(v(
                        "C12",
                        "state-not-carried",
                        Some(&tj.nonce),
                        format!(
                            "test {} found state {:?} but the previous test cases left {:?}",
                            tj.nonce, blob, expect_blob
                        ),
                    ));
                }
            }
            // what it leaves behind: the model of bash's EXIT trap
            if !eff.detached {
                let w = written(sc.sim.programs.get(&t.nonce).map(|v| &v[..]).unwrap_or(&[]));
                let ends_with_trap = !w.hangs && w.dies != Some(9);
                let finished_here = p.exit.is_some()
                    && p.exit_seq < ctx.facts.drain_begin_seq.unwrap_or(u64::MAX)
                    && p.killed.is_none();
                if ends_with_trap && finished_here && p.exit.as_ref().map(|e| e.2).unwrap_or(false) {
                    expect_blob = Some(format!("vsim-state:{}", t.nonce));
                }
            }
        }
    }
}

// ------------------------------------------------------------------ C20: exit status

fn check_exit_status(ctx: &Ctx, judgements: &[DocJudgement], out: &mut Vec<Violation>) {
    let sc = ctx.sc;
    let obs = ctx.obs;
    if obs.exit_signal.is_some() {
        // scrut itself died (abort): reported by the crash oracle below, not judged here
        return;
    }
    let Some(status) = obs.exit_status else { return };
    if status == 97 || status == 98 {
        return; // simulator stop (hang forever / harness problem), judged elsewhere
    }
    let unparsable = sc.docs.iter().any(|d| d.raw.is_some());
    let missing = !sc.cli.missing_paths.is_empty();
    let shell_missing = sc.cli.shell.as_deref().map(|s| !shell_exists(s)).unwrap_or(false)
        || (sc.cli.shell.is_none()
            && sc
                .docs
                .iter()
                .any(|d| d.main && d.shell.as_deref().map(|s| !shell_exists(s)).unwrap_or(false)));
    // a prepend/append path that does not exist
    let dangling = sc.docs.iter().filter(|d| d.main).any(|d| {
        let dir = match d.path.rfind('/') {
            Some(i) => &d.path[..i + 1],
            None => "",
        };
        d.prepend
            .iter()
            .chain(d.append.iter())
            .any(|p| !sc.docs.iter().any(|x| x.path == format!("{}{}", dir, p)))
    });
    // a shell that could not be started needs a cause: an injected fault, or a configured shell
    // that does not exist - the configured shell exists and is executable otherwise
    if !ctx.facts.spawn_failed.is_empty()
        && !shell_missing
        && !ctx.facts.fault_kinds.iter().any(|k| k.starts_with("spawn_error") || k.starts_with("fs_error"))
        && ctx.facts.peers.is_empty()
    {
        out.push(v(
            "C20",
            "shell-not-started-without-cause",
            None,
            format!(
                "scrut could not start a shell (errno {:?}) although the configured shell exists and no fault was injected (exit status {}); stderr: {}",
                ctx.facts.spawn_failed.iter().map(|x| x.1).collect::<Vec<_>>(),
                status,
                obs.stderr.lines().filter(|l| !l.trim().is_empty()).last().unwrap_or("").chars().take(200).collect::<String>()
            ),
        ));
    }
    let hard = unparsable
        || missing
        || shell_missing
        || dangling
        || judgements.iter().any(|j| j.run_fail && !j.may_fail)
        || !ctx.facts.spawn_failed.is_empty()
        || ctx.facts.fault_kinds.iter().any(|k| k.starts_with("fs_error"));
    let soft = judgements.iter().any(|j| j.may_fail);
    let must_fail = judgements.iter().any(|j| j.must_fail);
    let allowed: Vec<i32> = if hard {
        vec![1]
    } else if soft {
        vec![1, 50]
    } else if must_fail {
        vec![50]
    } else {
        vec![0]
    };
    // scrut's own stdout was cut off: a run that cannot deliver its report may end with 1 - but
    // not with 0 when a test case failed
    let mut allowed = allowed;
    if ctx.facts.fault_kinds.iter().any(|k| k == "output_closed:stdout") && !allowed.contains(&1) {
        allowed.push(1);
    }
    if !allowed.contains(&status) {
        let class = match (status, allowed.as_slice()) {
            (0, _) => "exit-0-despite-failure",
            (50, [0]) => "exit-50-without-failure",
            (1, _) => "exit-1-although-scrut-did-its-job",
            (50, [1]) => "exit-50-although-scrut-failed",
            _ => "wrong-exit-status",
        };
        out.push(v(
            "C20",
            class,
            None,
            format!(
                "scrut exited with {} but the run calls for {:?} (hard={}, no-exit-code={}, failed-test={}); stderr: {}",
                status,
                allowed,
                hard,
                soft,
                must_fail,
                obs.stderr.lines().filter(|l| !l.trim().is_empty()).last().unwrap_or("")
            ),
        ));
    }
    // the report: at most one result per test case, exactly one for every non-detached test
    // case of every document that was processed to the end
    if status != 1 && !sc.pretty {
        for (d, j) in obs.docs.iter().zip(judgements.iter()) {
            for tj in &j.tests {
                let Some(to) = d.tests.iter().find(|t| t.nonce == tj.nonce) else { continue };
                let detached = tj.detached;
                if !detached && to.results == 0 {
                    out.push(v(
                        "C20",
                        "no-result-for-test",
                        Some(&tj.nonce),
                        format!("the report has no result for test {} (run exit status {})", tj.nonce, status),
                    ));
                }
            }
        }
        if obs.stray_results > 0 {
            out.push(v(
                "C20",
                "stray-results",
                None,
                format!("{} results in the report belong to no test case of the run", obs.stray_results),
            ));
        }
    }
    // summary line (only present with the pretty renderer)
    if let (Some(s), Some(f), Some(k)) = (obs.summary.succeeded, obs.summary.failed, obs.summary.skipped) {
        let mut ns = 0;
        let mut nf = 0;
        let mut nk = 0;
        let mut total = 0;
        // (a detached test case may or may not have a result: at most one)
        let mut detached = 0;
        for (d, j) in obs.docs.iter().zip(judgements.iter()) {
            for tj in &j.tests {
                if tj.detached {
                    detached += 1;
                    continue;
                }
                total += 1;
                // the expected classification where it is exact
                match &tj.allowed {
                    Allowed::Exactly(Report::Success) => ns += 1,
                    Allowed::Exactly(Report::Skipped) => nk += 1,
                    Allowed::Exactly(r) if r.is_failure() => nf += 1,
                    _ => {}
                }
            }
            let _ = d;
        }
        let exact = judgements.iter().all(|j| {
            j.tests
                .iter()
                .all(|t| matches!(t.allowed, Allowed::Exactly(_)))
        });
        if status != 1 && (s + f + k < total || s + f + k > total + detached) {
            out.push(v(
                "C20",
                "summary-does-not-add-up",
                None,
                format!("summary says {} succeeded + {} failed + {} skipped, the run has {} test cases with a result", s, f, k, total),
            ));
        } else if status != 1 && exact && detached == 0 && (s, f, k) != (ns, nf, nk) {
            out.push(v(
                "C20",
                "summary-miscounts",
                None,
                format!("summary says {}/{}/{} (succeeded/failed/skipped), expected {}/{}/{}", s, f, k, ns, nf, nk),
            ));
            // the summary is what a person reads: a skipped document shown as failed (or the
            // other way round) is also a statement about skipping
            if k != nk {
                out.push(v(
                    "C15",
                    "summary-miscounts-skipped",
                    None,
                    format!("summary says {} skipped, the run has {} skipped test cases ({}/{}/{} against {}/{}/{})", k, nk, s, f, k, ns, nf, nk),
                ));
            }
        }
    }
}

// ------------------------------------------------------------------ C18: environment, work directory, clean-up

fn canon(p: &str) -> String {
    std::fs::canonicalize(p).map(|c| c.to_string_lossy().into_owned()).unwrap_or_else(|_| p.to_string())
}

fn check_env_cleanup(ctx: &Ctx, judgements: &[DocJudgement], out: &mut Vec<Violation>) {
    let sc = ctx.sc;
    let obs = ctx.obs;
    let Some(cli) = &obs.cli else { return };
    let tmp_root = canon(&cli.tmp_root);
    let resolve = |s: &str| -> String {
        if s.contains('/') {
            canon(s)
        } else {
            for dir in ["/usr/local/bin", "/usr/bin", "/bin"] {
                let p = format!("{}/{}", dir, s);
                if std::path::Path::new(&p).exists() {
                    return canon(&p);
                }
            }
            s.to_string()
        }
    };
    let mut cwd_of_doc: BTreeMap<usize, String> = BTreeMap::new();
    // (`scrut create` has no document: only the clean-up half applies to it)
    let no_docs = sc.cli.command.as_deref() == Some("create");
    for (d, j) in obs.docs.iter().zip(judgements.iter()).filter(|_| !no_docs) {
        let main = &sc.docs[d.doc];
        let script = main.format == Format::Cram || sc.cli.cram_compat;
        let list = exec_list(sc, main);
        let seen_path = cli.doc_path.get(&main.path).cloned().unwrap_or_default();
        // (a relative path is relative to the directory scrut was started in)
        let abs_path = if seen_path.starts_with('/') { seen_path.clone() } else { format!("{}/{}", cli.doc_root, seen_path) };
        let (dir, file) = match abs_path.rfind('/') {
            Some(i) => (abs_path[..i].to_string(), abs_path[i + 1..].to_string()),
            None => (".".to_string(), abs_path.clone()),
        };
        let testdir = canon(&dir);
        let shell = resolve(sc.cli.shell.as_deref().or(main.shell.as_deref()).unwrap_or("/bin/bash"));
        let mut pids_done = BTreeSet::new();
        let mut first_env: Option<BTreeMap<String, String>> = None;
        for (k, tj) in j.tests.iter().enumerate() {
            let Some(pid) = tj.pid else { continue };
            let p = &ctx.facts.procs[pid as usize];
            let (tdoc, t) = list[k];
            if !pids_done.insert(pid) {
                continue;
            }
            // the shell that runs the test cases is the configured one (`--shell`, `shell:`, bash)
            {
                let started = resolve(&p.argv0);
                if started != shell && canon(&started) != canon(&shell) {
                    out.push(v(
                        "C18",
                        "started-with-another-shell",
                        Some(&tj.nonce),
                        format!("test {}: started with {:?}, the configured shell is {:?}", tj.nonce, p.argv0, shell),
                    ));
                }
            }
            // the variables: from the spawn (per-process) or from the exports (single script)
            let mut env: BTreeMap<String, String> = if script {
                p.exports.iter().cloned().collect()
            } else {
                p.env.clone()
            };
            let scrut_test = env.remove("SCRUT_TEST");
            env.remove("SHELL");
            let mut want: Vec<(&str, String)> = vec![
                ("TESTDIR", testdir.clone()),
                ("TESTFILE", file.clone()),
                ("TESTSHELL", shell.clone()),
                ("LANG", "C".into()),
                ("LANGUAGE", "C".into()),
                ("LC_ALL", "C".into()),
                ("TZ", "GMT".into()),
                ("COLUMNS", "80".into()),
                ("CDPATH", "".into()),
                ("GREP_OPTIONS", "".into()),
            ];
            let tmpdir = env.get("TMPDIR").cloned();
            if script {
                if let Some(t) = &tmpdir {
                    want.push(("TMP", t.clone()));
                    want.push(("TEMP", t.clone()));
                }
            }
            for (key, val) in &want {
                // a variable the test sets itself (environment: in its configuration) wins
                if t.cfg.env.contains_key(*key) || main.defaults.env.contains_key(*key) {
                    continue;
                }
                match env.get(*key) {
                    Some(x) if x == val => {}
                    // path-valued variables: the same file under another spelling is fine
                    Some(x) if matches!(*key, "TESTDIR" | "TESTSHELL") && canon(x) == canon(val) => {}
                    other => out.push(v(
                        "C18",
                        "wrong-environment",
                        Some(&tj.nonce),
                        format!("test {}: {}={:?}, documented value {:?}", tj.nonce, key, other, val),
                    )),
                }
            }
            if script && !env.contains_key("CRAMTMP") {
                out.push(v("C18", "wrong-environment", Some(&tj.nonce), format!("test {}: CRAMTMP not set", tj.nonce)));
            }
            match &tmpdir {
                None => out.push(v("C18", "wrong-environment", Some(&tj.nonce), format!("test {}: TMPDIR not set", tj.nonce))),
                Some(t) => {
                    let inside = match &cli.work_dir {
                        Some(w) => t.starts_with(w.as_str()) || canon(t).starts_with(&canon(w)),
                        None => canon(t).starts_with(&tmp_root) || t.starts_with(&cli.tmp_root),
                    };
                    let exists = if script { true } else { p.tmpdir_exists };
                    if !inside || !exists {
                        out.push(v(
                            "C18",
                            "tmpdir-not-a-fresh-directory",
                            Some(&tj.nonce),
                            format!("test {}: TMPDIR={} (exists at spawn: {}, inside this run's directories: {})", tj.nonce, t, exists, inside),
                        ));
                    }
                }
            }
            if !script && std::ptr::eq(tdoc, main) {
                let line = cli.dollar_line.get(&t.nonce).copied().unwrap_or(0);
                let want = format!("{}:{}", seen_path, line);
                if scrut_test.as_deref() != Some(want.as_str()) {
                    out.push(v(
                        "C18",
                        "wrong-scrut-test",
                        Some(&tj.nonce),
                        format!("test {}: SCRUT_TEST={:?}, expected {:?}", tj.nonce, scrut_test, want),
                    ));
                }
            }
            // same for every test case of the document, however earlier ones ended
            match &first_env {
                None => first_env = Some(env.clone()),
                Some(fe) => {
                    for (key, val) in fe {
                        if t.cfg.env.contains_key(key) {
                            continue;
                        }
                        if env.get(key) != Some(val) && !list.iter().any(|(_, tt)| tt.cfg.env.contains_key(key)) {
                            out.push(v(
                                "C18",
                                "environment-changes-within-document",
                                Some(&tj.nonce),
                                format!("test {}: {}={:?} but the first test case of the document had {:?}", tj.nonce, key, env.get(key), val),
                            ));
                        }
                    }
                }
            }
            // work directory
            if !p.cwd_exists {
                out.push(v("C18", "work-directory-missing", Some(&tj.nonce), format!("test {}: cwd {} does not exist", tj.nonce, p.cwd)));
            }
            match cwd_of_doc.get(&d.doc) {
                None => {
                    if cli.work_dir.is_none() {
                        if let Some((other, _)) = cwd_of_doc.iter().find(|(_, c)| **c == p.cwd) {
                            out.push(v(
                                "C18",
                                "work-directory-shared",
                                Some(&tj.nonce),
                                format!("documents #{} and #{} run in the same directory {}", other, d.doc, p.cwd),
                            ));
                        }
                        if !canon(&p.cwd).starts_with(&tmp_root) {
                            out.push(v(
                                "C18",
                                "work-directory-not-created-by-run",
                                Some(&tj.nonce),
                                format!("test {}: cwd {} is not inside a directory this run created", tj.nonce, p.cwd),
                            ));
                        }
                    } else if let Some(w) = &cli.work_dir {
                        if canon(&p.cwd) != canon(w) {
                            out.push(v(
                                "C18",
                                "work-directory-ignored",
                                Some(&tj.nonce),
                                format!("test {}: cwd {} although --work-directory {}", tj.nonce, p.cwd, w),
                            ));
                        }
                    }
                    cwd_of_doc.insert(d.doc, p.cwd.clone());
                }
                Some(c) => {
                    if c != &p.cwd {
                        out.push(v(
                            "C18",
                            "work-directory-changes-within-document",
                            Some(&tj.nonce),
                            format!("test {} runs in {} but an earlier one of the same document in {}", tj.nonce, p.cwd, c),
                        ));
                    }
                }
            }
        }
    }

    // clean-up: at scrut's exit, and again after the orphans have run on
    // (SIGPIPE is different: that is how a run ends whose output nobody reads any more -
    // `scrut test ... | head` -, an ordinary way to end; the unchanged tree ignores the signal,
    // gets EPIPE and unwinds)
    if ctx.duo {
        // (judged for the pair of processes: check_duo)
        return;
    }
    let died = obs.exit_signal.is_some() && obs.exit_signal != Some(13);
    if died || obs.sim_abort.is_some() || obs.exit_status == Some(97) {
        // abort (e.g. stack overflow): no Drop runs, excluded by the property's wording of
        // "exits"; or the simulator stopped a scrut that would block forever (judged under C14)
        return;
    }
    let peer_paths: Vec<String> = ctx.facts.peers.iter().map(|p| p.1.clone()).collect();
    let is_peer = |root: &str, e: &str| {
        let full = format!("{}/{}", root.trim_end_matches('/'), e.trim_end_matches('/'));
        peer_paths
            .iter()
            .any(|p| full == *p || full.starts_with(&format!("{}/", p)) || p.starts_with(&format!("{}/", full)))
    };
    let mut phases: Vec<(String, String, Vec<String>)> = vec![];
    for s in &ctx.facts.snapshots {
        phases.push((format!("at exit"), s.root.clone(), s.entries.clone()));
    }
    for (root, entries) in &obs.fs_after {
        phases.push(("after the orphaned children finished".into(), root.clone(), entries.clone()));
    }
    if let Some(w) = &cli.work_dir {
        if !obs.fs_after.iter().any(|(r, e)| canon(r) == canon(w) && !e.is_empty()) {
            // (an empty listing means the directory, or everything in it, is gone)
        }
    }
    for (phase, root, entries) in phases {
        let is_tmp_root = canon(&root) == tmp_root;
        let is_work = cli.work_dir.as_ref().map(|w| canon(w) == canon(&root)).unwrap_or(false);
        if !is_tmp_root && !is_work {
            continue;
        }
        let mut residue: Vec<&String> = entries.iter().filter(|e| !is_peer(&root, e)).collect();
        if is_work {
            // the directory is the user's: it and what was in it stay
            for must in ["users-own-file.txt", "users-own-dir/"] {
                if !entries.iter().any(|e| e == must) {
                    out.push(v(
                        "C18",
                        "work-directory-content-removed",
                        None,
                        format!("{}: {} that was in --work-directory before the run is gone (exit status {:?})", phase, must, obs.exit_status),
                    ));
                }
            }
            residue.retain(|e| *e != "users-own-file.txt" && *e != "users-own-dir/");
        }
        if sc.cli.keep_tmp && is_tmp_root {
            // exactly the kept directories remain
            residue.retain(|e| !(e.starts_with("execution.") || e.starts_with("temp.")));
        }
        if !residue.is_empty() {
            out.push(v(
                "C18",
                if phase == "at exit" { "residue-at-exit" } else { "residue-after-exit" },
                None,
                format!(
                    "{}: {} still contains {:?} (exit status {:?})",
                    phase,
                    if is_work { "--work-directory" } else { "the temp root" },
                    residue.iter().take(6).collect::<Vec<_>>(),
                    obs.exit_status
                ),
            ));
        }
        if sc.cli.keep_tmp && is_tmp_root && phase != "at exit" {
            let top = |prefix: &str| {
                entries
                    .iter()
                    .filter(|e| e.starts_with(prefix) && !e.contains(".peer") && e.matches('/').count() == 1 && e.ends_with('/'))
                    .count()
            };
            let (kept_exec, kept_temp) = (top("execution."), top("temp."));
            // one pair of kept directories per document that got as far as having an environment
            let with_env: BTreeSet<usize> = obs
                .docs
                .iter()
                .zip(judgements.iter())
                .filter(|(_, j)| j.tests.iter().any(|t| t.pid.is_some()))
                .map(|(d, _)| d.doc)
                .collect();
            if (kept_exec < with_env.len() || kept_temp < with_env.len()) && !no_docs {
                out.push(v(
                    "C18",
                    "kept-directories-missing",
                    None,
                    format!(
                        "--keep-temporary-directories: {} document(s) were executed but only {} execution.* and {} temp.* directories remain",
                        with_env.len(),
                        kept_exec,
                        kept_temp
                    ),
                ));
            }
        }
    }
    // the peer's directories are untouched
    let mut alive: BTreeMap<String, bool> = BTreeMap::new();
    for (action, path, ok) in &ctx.facts.peers {
        if !*ok {
            continue;
        }
        match action.as_str() {
            "mkdir" | "touch" => {
                alive.insert(path.clone(), true);
            }
            "rmdir" => {
                let under: Vec<String> = alive
                    .keys()
                    .filter(|k| *k == path || k.starts_with(&format!("{}/", path)))
                    .cloned()
                    .collect();
                for k in under {
                    alive.insert(k, false);
                }
            }
            _ => {}
        }
    }
    for (path, should_exist) in alive {
        if should_exist {
            // (looked at by the harness before it removes the run's root)
            if !obs.peer_survivors.contains(&path) {
                out.push(v(
                    "C18",
                    "peer-directory-removed",
                    None,
                    format!("{} was created by another scrut instance and is gone after this run", path),
                ));
            }
        }
    }
}

// ------------------------------------------------------------------ C18: several scrut processes at the same time

/// Two scrut processes ran at the same time on one temporary root (tier S-cli, duo runs): each
/// must behave exactly as it does alone, they must not share a work directory (unless the user
/// gave both the same --work-directory), and when both are gone nothing they created remains.
pub fn check_duo(sc: &Scenario, partner: &Scenario, obs: &Observation, duo: &DuoObs, facts: &crate::facts::Facts, out: &mut Vec<Violation>) {
    // the partner's own environment / work directory / report oracles
    let (pv, pfacts, _) = crate::oracle::judge_one(partner, &duo.partner, true);
    for x in pv {
        // (C12: what a test case finds as the state of its predecessor must not come from the
        // other process either)
        if x.property == "C18" || x.property == "C12" {
            out.push(v(&x.property, &x.class, x.nonce.as_deref(), format!("(the process running next to this one) {}", x.detail)));
        }
    }
    // undisturbed: the same exit status, reports and directories as alone
    let spawn_shape = |f: &crate::facts::Facts| -> Vec<(bool, bool, String)> { f.procs.iter().map(|p| (p.cwd_exists, p.tmpdir_exists, p.stdin_kind.clone())).collect() };
    let solo_facts = crate::facts::extract(sc, &duo.solo.log);
    let psolo_facts = crate::facts::extract(partner, &duo.partner_solo.log);
    for (who, alone, together, fa, ft) in [("this process", &duo.solo, obs, &solo_facts, facts), ("the process running next to it", &duo.partner_solo, &duo.partner, &psolo_facts, &pfacts)] {
        if alone.exit_status != together.exit_status || alone.exit_signal != together.exit_signal {
            out.push(v(
                "C18",
                "disturbed-by-concurrent-run",
                None,
                format!("{}: exit status {:?} (signal {:?}) alone, {:?} ({:?}) next to another scrut process (turns {:?})", who, alone.exit_status, alone.exit_signal, together.exit_status, together.exit_signal, duo.labels),
            ));
            continue;
        }
        let reports = |o: &Observation| -> Vec<(usize, Vec<(String, u32, String)>)> { o.docs.iter().map(|d| (d.doc, d.tests.iter().map(|t| (t.nonce.clone(), t.results, t.report.short().to_string())).collect())).collect() };
        if reports(alone) != reports(together) {
            out.push(v(
                "C18",
                "disturbed-by-concurrent-run",
                None,
                format!("{}: reports alone {:?}, next to another scrut process {:?}", who, reports(alone), reports(together)),
            ));
        }
        if spawn_shape(fa) != spawn_shape(ft) {
            out.push(v(
                "C18",
                "disturbed-by-concurrent-run",
                None,
                format!("{}: its processes (work directory exists, TMPDIR exists, stdin) alone {:?}, next to another scrut process {:?}", who, spawn_shape(fa), spawn_shape(ft)),
            ));
        }
    }
    // no work directory in common
    if !(sc.cli.work_directory && partner.cli.work_directory) {
        let mine: BTreeSet<String> = facts.procs.iter().map(|p| canon(&p.cwd)).collect();
        for p in &pfacts.procs {
            if mine.contains(&canon(&p.cwd)) {
                out.push(v("C18", "work-directory-shared-between-processes", None, format!("both scrut processes ran test cases in {}", p.cwd)));
                break;
            }
        }
    }
    // what is left when both are gone
    let ended_regularly = |o: &Observation| !(o.exit_signal.is_some() && o.exit_signal != Some(13)) && o.sim_abort.is_none() && o.exit_status != Some(97);
    if !ended_regularly(obs) || !ended_regularly(&duo.partner) {
        return;
    }
    let Some(cli) = &obs.cli else { return };
    let keep = sc.cli.keep_tmp || partner.cli.keep_tmp;
    for (root, entries) in &obs.fs_after {
        let is_work = cli.work_dir.as_ref().map(|w| canon(w) == canon(root)).unwrap_or(false) || duo.partner.cli.as_ref().and_then(|c| c.work_dir.as_ref()).map(|w| canon(w) == canon(root)).unwrap_or(false);
        let mut residue: Vec<&String> = entries.iter().collect();
        if is_work {
            for must in ["users-own-file.txt", "users-own-dir/"] {
                if !entries.iter().any(|e| e == must) {
                    out.push(v("C18", "work-directory-content-removed", None, format!("{} that was in --work-directory before the two runs is gone", must)));
                }
            }
            residue.retain(|e| *e != "users-own-file.txt" && *e != "users-own-dir/");
        }
        if keep {
            residue.retain(|e| !(e.starts_with("execution.") || e.starts_with("temp.")));
        }
        if !residue.is_empty() {
            out.push(v(
                "C18",
                "residue-after-concurrent-runs",
                None,
                format!(
                    "after both scrut processes ended (exit {:?} / {:?}) {} still contains {:?} (turns {:?})",
                    obs.exit_status,
                    duo.partner.exit_status,
                    if is_work { "--work-directory" } else { "the temp root" },
                    residue.iter().take(6).collect::<Vec<_>>(),
                    duo.labels
                ),
            ));
        }
    }
    // the partner's work directory is listed by its own observation when only it has one
    if !sc.cli.work_directory && partner.cli.work_directory {
        for (root, entries) in &duo.partner.fs_after {
            let is_work = duo.partner.cli.as_ref().and_then(|c| c.work_dir.as_ref()).map(|w| canon(w) == canon(root)).unwrap_or(false);
            if !is_work {
                continue;
            }
            let residue: Vec<&String> = entries.iter().filter(|e| *e != "users-own-file.txt" && *e != "users-own-dir/" && !(keep && e.starts_with("temp."))).collect();
            if !residue.is_empty() || !entries.iter().any(|e| e == "users-own-file.txt") {
                out.push(v("C18", "residue-after-concurrent-runs", None, format!("--work-directory of the second process: {:?}", entries.iter().take(6).collect::<Vec<_>>())));
            }
        }
    }
}
