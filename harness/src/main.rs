mod driver;
mod facts;
mod gen;
mod gen_cli;
mod known;
mod obs;
mod oracle;
mod oracle_run;
mod real;
mod runcli;
mod runlib;
mod scn;

use std::collections::BTreeMap;
use std::sync::Arc;

use driver::*;
use oracle::Violation;
use scn::*;

const DEFAULT_SEED: u64 = 20261001;

fn usage() -> ! {
    eprintln!(
        "usage: vsim check <C05|C12|C13|C14|C15|C18|C20> <quick|thorough>\n       vsim replay <file>\n       vsim selftest determinism [n]\n       vsim lanes <property> <tier>   (list)\n       vsim show <lane-substring> <property> <tier>"
    );
    std::process::exit(2);
}

pub fn out_dir() -> String {
    std::env::var("VSIM_OUT").unwrap_or_else(|_| "/verif".into())
}

fn seed() -> u64 {
    std::env::var("VERIF_SEED")
        .ok()
        .and_then(|s| s.trim().parse::<u64>().ok())
        .unwrap_or(DEFAULT_SEED)
}

fn threads() -> usize {
    std::env::var("VSIM_THREADS")
        .ok()
        .and_then(|s| s.parse().ok())
        .unwrap_or_else(|| std::thread::available_parallelism().map(|n| n.get()).unwrap_or(8))
}

fn main() {
    // panics inside scrut (and the simulator's own stop signal) are observations: keep stderr quiet
    std::panic::set_hook(Box::new(|info| {
        if std::env::var("VSIM_PANIC_TRACE").is_ok() {
            eprintln!("panic: {}", info);
        }
    }));
    let args: Vec<String> = std::env::args().collect();
    match args.get(1).map(|s| s.as_str()) {
        Some("check") => {
            let prop = args.get(2).cloned().unwrap_or_else(|| usage());
            let tier = args
                .get(3)
                .cloned()
                .or_else(|| std::env::var("VERIF_TIER").ok())
                .unwrap_or_else(|| "quick".into());
            std::process::exit(check(&prop, &tier));
        }
        Some("replay") => {
            let f = args.get(2).cloned().unwrap_or_else(|| usage());
            std::process::exit(replay(&f));
        }
        Some("selftest") => {
            let n = args.get(3).and_then(|s| s.parse().ok()).unwrap_or(300);
            std::process::exit(selftest_determinism(n));
        }
        Some("lanes") => {
            let prop = args.get(2).cloned().unwrap_or_else(|| usage());
            let tier = args.get(3).cloned().unwrap_or_else(|| "quick".into());
            let l = lanes_for(&prop, &tier, seed());
            let mut by: BTreeMap<String, usize> = BTreeMap::new();
            for s in &l {
                *by.entry(format!("{:?}/{}", s.tier, s.lane.split('/').next().unwrap_or(""))).or_insert(0) += 1;
            }
            for (k, v) in by {
                println!("{:6} {}", v, k);
            }
        }
        Some("residue") => {
            // debugging aid: which scenarios leave something on disk?
            let prop = args.get(2).cloned().unwrap_or_else(|| "C14".into());
            let l = lanes_for(&prop, "quick", seed());
            let mut n = 0;
            for sc in l.iter().filter(|s| s.tier == Tier::Lib) {
                let obs = run_scenario(sc);
                if obs.fs_after.iter().any(|(_, e)| !e.is_empty()) {
                    n += 1;
                    if n <= 8 {
                        println!("{}: {:?}", sc.lane, obs.fs_after);
                    }
                }
            }
            println!("{} scenarios with residue", n);
        }
        Some("show") => {
            let pat = args.get(2).cloned().unwrap_or_else(|| usage());
            let prop = args.get(3).cloned().unwrap_or_else(|| "C05".into());
            let tier = args.get(4).cloned().unwrap_or_else(|| "quick".into());
            let l = lanes_for(&prop, &tier, seed());
            let Some(sc) = l.iter().find(|s| s.lane.contains(&pat)) else {
                eprintln!("no lane matches");
                std::process::exit(2);
            };
            let obs = run_scenario(sc);
            println!("{}", serde_json::to_string_pretty(sc).unwrap());
            for e in &obs.log {
                let s = serde_json::to_string(e).unwrap();
                println!("{}", &s[..s.len().min(300)]);
            }
            println!("{}", serde_json::to_string_pretty(&obs.docs).unwrap());
            if let Some(d) = &obs.duo {
                println!("duo: switches={} labels={:?}", d.switches, d.labels);
                println!("duo: partner exit={:?} fs_after={:?}", d.partner.exit_status, d.partner.fs_after);
            }
            println!(
                "exit={:?} sig={:?} abort={:?} panic={:?} herr={:?}\nstderr: {}",
                obs.exit_status, obs.exit_signal, obs.sim_abort, obs.panic, obs.harness_error, obs.stderr
            );
            let (v, facts, js) = oracle::judge(sc, &obs);
            println!("delivered: {:?}", facts.delivered);
            for j in &js {
                println!("judgement: stop={:?} run_fail={} must_fail={} may_fail={}", j.stop, j.run_fail, j.must_fail, j.may_fail);
                for t in &j.tests {
                    println!("  {} pid={:?} allowed={:?} must_run={:?} exact={} why={}", t.nonce, t.pid, t.allowed, t.must_run, t.exact, t.why);
                }
            }
            for x in v {
                println!("VIOL {} {} {}", x.property, x.class, x.detail);
            }
        }
        _ => usage(),
    }
}

/// Which scenarios decide a property. Quick = systematic lanes + a small random lane;
/// thorough = the same plus large random lanes.
pub fn lanes_for(prop: &str, tier: &str, seed: u64) -> Vec<Scenario> {
    let thorough = tier == "thorough";
    let mut v: Vec<Scenario> = vec![];
    // (the thorough tier adds further random chunks on top, see `extra_chunk`)
    let n_rand_lib = 6_000;
    let n_rand_cli = 500;
    match prop {
        "C05" => {
            v.extend(gen::lane_fates(Tier::Lib, seed));
            v.extend(gen::lane_faults(Tier::Lib, seed));
            v.extend(gen_cli::lane_stream_layers(seed));
            v.extend(gen::lane_script_exit(seed));
            v.extend(gen::lane_big_stdin(seed));
            v.extend(gen_cli::lane_cli_fates(seed, if thorough { 1 } else { 4 }));
            v.extend(gen_cli::lane_pairing(seed));
            v.extend(gen_cli::lane_cli_report_bytes(seed));
            v.extend(gen_cli::lane_closed_stderr(seed));
            // a read round filled by both streams together, a pause, a little more: the verdict
            // is about all of it
            v.extend(gen_cli::lane_flood(seed).into_iter().filter(|s| s.check.iter().any(|c| c == "C05")));
            v.extend(gen_cli::lane_random(Tier::Lib, seed, n_rand_lib, "C05"));
            v.extend(gen_cli::lane_random(Tier::Cli, seed, n_rand_cli, "C05"));
        }
        "C12" => {
            v.extend(gen::lane_fates(Tier::Lib, seed).into_iter().filter(|s| !s.script_mode));
            v.extend(gen::lane_faults(Tier::Lib, seed).into_iter().filter(|s| !s.script_mode));
            v.extend(gen_cli::lane_state(seed, if thorough { 20_000 } else { 1_500 }));
            v.extend(gen_cli::lane_duo_state(seed, if thorough { 600 } else { 80 }));
            v.extend(gen_cli::lane_random(Tier::Cli, seed, n_rand_cli / 2, "C12"));
        }
        "C13" => {
            v.extend(gen::lane_bytes(seed));
            v.extend(gen::lane_big(seed));
            v.extend(gen::lane_big_stdin(seed));
            v.extend(gen::lane_fates(Tier::Lib, seed));
            v.extend(gen_cli::lane_random(Tier::Lib, seed, n_rand_lib, "C13"));
            v.extend(gen_cli::lane_cli_bytes(seed, if thorough { 400 } else { 40 }));
            v.extend(gen_cli::lane_cli_report_bytes(seed));
            v.extend(gen_cli::lane_pairing(seed));
            v.extend(gen_cli::lane_script_partial(seed));
            v.extend(gen_cli::lane_detached_in_a_row(seed));
            // megabytes in several read rounds, then a limit that expires: what was captured is
            // the beginning of what was written
            v.extend(gen_cli::lane_flood(seed).into_iter().filter(|s| s.check.iter().any(|c| c == "C13")));
            v.extend(gen_cli::lane_cli_fates(seed, if thorough { 1 } else { 6 }));
            v.extend(gen_cli::lane_cram_sizes(seed));
            v.extend(gen_cli::lane_random(Tier::Cli, seed, n_rand_cli, "C13"));
        }
        "C14" => {
            v.extend(gen::lane_timing(Tier::Lib, seed));
            v.extend(gen::lane_early_exit(seed));
            v.extend(gen_cli::lane_script_limits(seed));
            v.extend(gen_cli::lane_included_limits(seed));
            v.extend(gen_cli::lane_flood(seed));
            v.extend(gen_cli::lane_cli_timing(seed, if thorough { 1 } else { 4 }));
            v.extend(gen_cli::lane_random(Tier::Lib, seed, n_rand_lib, "C14"));
            v.extend(gen_cli::lane_random(Tier::Cli, seed, n_rand_cli, "C14"));
        }
        "C15" => {
            v.extend(gen::lane_fates(Tier::Lib, seed));
            v.extend(gen_cli::lane_skip(seed));
            v.extend(gen_cli::lane_skip_interplay(seed));
            v.extend(gen_cli::lane_summary(seed, if thorough { 1 } else { 3 }));
            v.extend(gen_cli::lane_closed_stderr(seed));
            // runs in which a document times out (after a detached test case, in an included
            // document ...): who is reported as skipped then
            v.extend(gen_cli::lane_runs(seed).into_iter().filter(|s| s.lane.contains("timeout")));
            v.extend(gen_cli::lane_random(Tier::Lib, seed, n_rand_lib, "C15"));
            v.extend(gen_cli::lane_random(Tier::Cli, seed, n_rand_cli, "C15"));
        }
        "C18" => {
            v.extend(gen_cli::lane_env(seed));
            v.extend(gen_cli::lane_update(seed));
            v.extend(gen_cli::lane_create(seed));
            v.extend(gen_cli::lane_fs_faults(seed));
            v.extend(gen_cli::lane_closed_output(seed));
            v.extend(gen_cli::lane_duo(seed, if thorough { 2_000 } else { 240 }));
            // a limit that expires while output is flowing: the shell scrut stops listening to must
            // not come back later and re-create what was cleaned up
            v.extend(gen_cli::lane_flood(seed).into_iter().filter(|s| s.tier == Tier::Cli).map(|mut s| {
                s.lane = format!("env-{}", s.lane);
                s.check = vec!["C18".into()];
                s
            }));
            v.extend(gen_cli::lane_cli_fates(seed, if thorough { 1 } else { 6 }));
            v.extend(gen_cli::lane_random(Tier::Cli, seed, n_rand_cli * 2, "C18"));
        }
        "C20" => {
            v.extend(gen_cli::lane_runs(seed));
            v.extend(gen_cli::lane_hard_failures(seed));
            v.extend(gen_cli::lane_directory(seed));
            v.extend(gen_cli::lane_cram_sizes(seed));
            v.extend(gen_cli::lane_pairing(seed));
            v.extend(gen_cli::lane_fs_faults(seed));
            v.extend(gen_cli::lane_summary(seed, if thorough { 1 } else { 2 }));
            v.extend(gen_cli::lane_renderers(seed));
            v.extend(gen_cli::lane_closed_stderr(seed));
            v.extend(gen_cli::lane_cli_fates(seed, if thorough { 1 } else { 4 }));
            v.extend(gen_cli::lane_cli_timing(seed, if thorough { 2 } else { 8 }));
            v.extend(gen_cli::lane_closed_stdout(seed));
            v.extend(gen_cli::lane_detached_in_a_row(seed));
            v.extend(gen::lane_fates(Tier::Lib, seed));
            v.extend(gen_cli::lane_random(Tier::Cli, seed, n_rand_cli * 2, "C20"));
        }
        _ => {
            eprintln!("vsim: no check for property {}", prop);
            std::process::exit(2);
        }
    }
    // the flag that is given, preceded by its opposite (the later one counts); a quote and a blank
    // in the name of the directory a document lives in
    let mut more: Vec<Scenario> = vec![];
    for (k, s) in v.iter().enumerate() {
        if s.tier == Tier::Cli && s.partner.is_none() && (s.cli.combine_output.is_some() || s.cli.keep_crlf.is_some()) && k % 2 == 0 {
            let mut c = s.clone();
            c.cli.negated_first = true;
            c.lane = format!("{}/negated-first", s.lane);
            more.push(c);
        }
        // (single-script documents anywhere: their environment travels as text in the script)
        let plain_layout = s.cli.prepend.is_empty()
            && s.cli.append.is_empty()
            && s.cli.missing_paths.is_empty()
            && s.cli.command.is_none()
            && s.docs.iter().all(|d| d.prepend.is_empty() && d.append.is_empty() && d.stored_at.is_none() && d.path.contains('/'));
        if s.tier == Tier::Cli && s.partner.is_none() && plain_layout && !s.lane.starts_with("env/") && (s.script_mode || s.cli.cram_compat) && k % 3 == 0 {
            let mut c = s.clone();
            for d in c.docs.iter_mut() {
                if let Some(i) = d.path.find('/') {
                    d.path = format!("{}'s q{}", &d.path[..i], &d.path[i..]);
                }
            }
            c.lane = format!("{}/quoted-dir", s.lane);
            more.push(c);
        }
        if s.tier == Tier::Cli && s.partner.is_none() && s.lane.starts_with("env/") && s.lane.ends_with("/one") && s.docs.iter().all(|d| d.path.starts_with("suite/")) {
            let mut c = s.clone();
            for d in c.docs.iter_mut() {
                d.path = d.path.replacen("suite/", "it's a suite/", 1);
            }
            c.lane = format!("{}/quoted-dir", s.lane);
            more.push(c);
        }
    }
    v.extend(more);
    // scrut started in an environment with variables named after its options, or a stale PWD
    let he: Vec<Scenario> = gen_cli::lane_host_env(seed, prop).into_iter().filter(|s| s.check.iter().any(|c| c == prop)).collect();
    v.extend(he);
    v
}

/// thorough tier: chunk number `k` (0-based) of additional random scenarios
fn extra_chunk(prop: &str, seed: u64, k: usize) -> Vec<Scenario> {
    let lib = 60_000;
    let cli = 6_000;
    let mut v = vec![];
    let (use_lib, use_cli) = match prop {
        "C18" | "C20" => (false, true),
        _ => (true, true),
    };
    if use_lib {
        v.extend(gen_cli::lane_random_from(Tier::Lib, seed, 6_000 + k * lib, lib, prop));
    }
    if use_cli {
        let n = if use_lib { cli } else { cli * 2 };
        v.extend(gen_cli::lane_random_from(Tier::Cli, seed, 2_000 + k * n, n, prop));
    }
    if prop == "C12" {
        v.extend(gen_cli::lane_state(seed ^ (k as u64 + 1).wrapping_mul(0x9e37), 20_000));
    }
    if prop == "C18" {
        v.extend(gen_cli::lane_duo(seed ^ (k as u64 + 1).wrapping_mul(0x9e37), 2_000));
    }
    v
}

fn check(prop: &str, tier: &str) -> i32 {
    let t0 = wall();
    let seed = seed();
    println!("vsim: property={} tier={} VERIF_SEED={} threads={}", prop, tier, seed, threads());
    let known = known::load();
    let first = Arc::new(lanes_for(prop, tier, seed));
    println!("vsim: {} scenarios", first.len());
    let (first_outcomes, mut stats) = run_batch(first.clone(), threads(), 3);
    // keep only what the triage below needs: scenarios with a violation or a harness error
    let mut scenarios: Vec<Scenario> = vec![];
    let mut outcomes: Vec<Outcome> = vec![];
    let mut keep = |batch: &Arc<Vec<Scenario>>, outs: Vec<Outcome>, scenarios: &mut Vec<Scenario>, outcomes: &mut Vec<Outcome>| {
        for mut o in outs {
            if o.violations.iter().any(|v| v.property == prop) || o.harness_error.is_some() {
                scenarios.push(batch[o.idx].clone());
                o.idx = scenarios.len() - 1;
                outcomes.push(o);
            }
        }
    };
    keep(&first, first_outcomes, &mut scenarios, &mut outcomes);
    drop(first);
    if tier == "thorough" {
        let budget = std::env::var("VSIM_THOROUGH_SECS").ok().and_then(|s| s.parse::<f64>().ok()).unwrap_or(900.0);
        let mut k = 0;
        while t0.elapsed().as_secs_f64() < budget && k < 200 && outcomes.len() < 5_000 {
            let chunk = Arc::new(extra_chunk(prop, seed, k));
            let (o, st) = run_batch(chunk.clone(), threads(), 0);
            stats.merge(st);
            keep(&chunk, o, &mut scenarios, &mut outcomes);
            k += 1;
        }
        println!("vsim: thorough: {} additional random chunk(s)", k);
    }

    // the real-bash tier (C12 carrier, C13 stub conformance)
    let mut real_report = None;
    if prop == "C12" || prop == "C13" || prop == "C18" || prop == "C05" || prop == "C15" || prop == "C14" || prop == "C20" {
        let r = real::run_real(prop, tier, seed, threads(), &known);
        real_report = Some(r);
    }

    let mut harness_errors: Vec<String> = vec![];
    let mut known_hits: BTreeMap<String, (u64, String)> = BTreeMap::new();
    let mut fresh: Vec<(usize, Violation)> = vec![];
    for o in &outcomes {
        if let Some(e) = &o.harness_error {
            harness_errors.push(format!("[{}] {}", scenarios[o.idx].lane, e));
            continue;
        }
        for v in &o.violations {
            if v.property != prop {
                continue;
            }
            match known::matching(&known, &scenarios[o.idx], v) {
                Some(f) => {
                    let e = known_hits.entry(f.id.clone()).or_insert((0, f.what.clone()));
                    e.0 += 1;
                }
                None => fresh.push((o.idx, v.clone())),
            }
        }
    }
    if let Some(r) = &real_report {
        harness_errors.extend(r.harness_errors.clone());
        for (id, (n, what)) in &r.known_hits {
            let e = known_hits.entry(id.clone()).or_insert((0, what.clone()));
            e.0 += n;
        }
    }
    let mut exit = 0;
    if !harness_errors.is_empty() {
        for e in harness_errors.iter().take(10) {
            println!("HARNESS-ERROR: {}", e);
        }
        println!("vsim: {} harness error(s); nothing is reported as a violation from a run that cannot be judged", harness_errors.len());
        exit = 2;
    }
    // one replay file per violation class
    let mut by_class: BTreeMap<String, Vec<(usize, Violation)>> = BTreeMap::new();
    for (i, v) in fresh {
        by_class.entry(v.class.clone()).or_default().push((i, v));
    }
    let mut n_viol = 0;
    let _ = std::fs::create_dir_all(format!("{}/replays", crate::out_dir()));
    for (class, items) in &by_class {
        let (idx, v) = &items[0];
        println!("vsim: {} x {}/{} - first in lane {}: {}", items.len(), prop, class, scenarios[*idx].lane, v.detail);
        let is_fresh = |sc: &Scenario| -> bool {
            let obs = run_scenario(sc);
            if obs.harness_error.is_some() {
                return false;
            }
            let (viol, _, _) = oracle::judge(sc, &obs);
            viol.iter()
                .any(|x| x.property == prop && &x.class == class && known::matching(&known, sc, x).is_none())
        };
        let min = minimise_with(&scenarios[*idx], &is_fresh, if tier == "thorough" { 400 } else { 150 });
        let rf = ReplayFile {
            property: prop.to_string(),
            class: class.clone(),
            detail: v.detail.clone(),
            scenario: min,
        };
        let text = serde_json::to_string_pretty(&rf).unwrap();
        let h = fnv(text.as_bytes());
        let path = format!("{}/replays/{}-{}-{:08x}.json", crate::out_dir(), prop, class, h as u32);
        if let Err(e) = std::fs::write(&path, &text) {
            println!("HARNESS-ERROR: cannot write {}: {}", path, e);
            exit = 2;
            continue;
        }
        // replay in a fresh process; only a reproducing failure is reported
        let me = std::env::current_exe().unwrap();
        let out = std::process::Command::new(me).arg("replay").arg(&path).output();
        match out {
            Ok(o) if o.status.code() == Some(1) => {
                println!("VIOLATION property={} replay={}", prop, path);
                n_viol += 1;
            }
            Ok(o) => {
                println!(
                    "HARNESS-ERROR: violation {}/{} did not reproduce from {} (replay exit {:?}): {}",
                    prop,
                    class,
                    path,
                    o.status.code(),
                    String::from_utf8_lossy(&o.stdout)
                );
                exit = 2;
            }
            Err(e) => {
                println!("HARNESS-ERROR: cannot run replay: {}", e);
                exit = 2;
            }
        }
    }
    if let Some(r) = &real_report {
        for p in &r.violation_replays {
            println!("VIOLATION property={} replay={}", prop, p);
            n_viol += 1;
        }
    }
    for (id, (n, what)) in &known_hits {
        println!("KNOWN-FINDING: property={} [{}] {} ({} occurrence(s) in this run)", prop, id, what, n);
    }
    if n_viol > 0 {
        exit = 1.max(exit);
        if exit == 2 {
            exit = 1;
        }
    }
    // evidence
    if let Some(r) = &real_report {
        stats.runs += r.runs;
        stats.nontrivial += r.runs;
        stats.signatures.extend(r.signatures.iter().cloned());
        stats.samples.extend(r.samples.iter().cloned());
        *stats.by_tier.entry("Real".into()).or_insert(0) += r.runs;
    }
    write_evidence(prop, tier, seed, &stats, n_viol, known_hits.len(), t0.elapsed().as_secs_f64(), &real_report);
    println!(
        "vsim: {} runs ({:?}), {} distinct signatures, simulated time {:.1} h, {} violation class(es), {} known finding(s), {:.1}s",
        stats.runs,
        stats.by_tier,
        stats.signatures.len(),
        stats.sim_time_ns as f64 / 3.6e12,
        n_viol,
        known_hits.len(),
        t0.elapsed().as_secs_f64()
    );
    exit
}

fn minimise_with(sc: &Scenario, keep: &dyn Fn(&Scenario) -> bool, budget: usize) -> Scenario {
    let mut best = sc.clone();
    let obs = run_scenario(&best);
    let mut pinned = best.clone();
    pinned.sim.tape = Some(obs.tape.clone());
    let mut used = 2;
    if keep(&pinned) {
        best = pinned;
    }
    let mut progress = true;
    while progress && used < budget {
        progress = false;
        for c in driver::candidates_pub(&best) {
            if used >= budget {
                break;
            }
            used += 1;
            if keep(&c) {
                best = c;
                progress = true;
                break;
            }
        }
    }
    best
}

fn fnv(b: &[u8]) -> u64 {
    let mut h = 0xcbf29ce484222325u64;
    for c in b {
        h ^= *c as u64;
        h = h.wrapping_mul(0x100000001b3);
    }
    h
}

fn replay(path: &str) -> i32 {
    let text = match std::fs::read_to_string(path) {
        Ok(t) => t,
        Err(e) => {
            eprintln!("vsim: {}: {}", path, e);
            return 2;
        }
    };
    if text.contains("\"real_history\"") || text.contains("\"real_expr\"") || text.contains("\"real_env\"") || text.contains("\"real_doc\"") {
        return real::replay_real(path, &text);
    }
    let rf: ReplayFile = match serde_json::from_str(&text) {
        Ok(r) => r,
        Err(e) => {
            eprintln!("vsim: {}: {}", path, e);
            return 2;
        }
    };
    let obs1 = run_scenario(&rf.scenario);
    let obs2 = run_scenario(&rf.scenario);
    if normalised_log(&obs1) != normalised_log(&obs2) {
        println!("vsim: replay is not deterministic (two runs of {} differ)", path);
        return 2;
    }
    if let Some(e) = &obs1.harness_error {
        println!("vsim: harness error: {}", e);
        return 2;
    }
    let (viol, _, _) = oracle::judge(&rf.scenario, &obs1);
    let mut hit = false;
    for v in &viol {
        if v.property == rf.property && v.class == rf.class {
            hit = true;
            println!("violation {}/{}: {}", v.property, v.class, v.detail);
        }
    }
    if std::env::var("VSIM_VERBOSE").is_ok() {
        for e in &obs1.log {
            let s = serde_json::to_string(e).unwrap();
            println!("{}", &s[..s.len().min(400)]);
        }
        println!("{}", serde_json::to_string_pretty(&obs1.docs).unwrap());
    }
    if hit {
        println!("VIOLATION property={} replay={}", rf.property, path);
        1
    } else {
        println!("vsim: {} does not reproduce {}/{} on this tree", path, rf.property, rf.class);
        0
    }
}

fn selftest_determinism(n: usize) -> i32 {
    let seed = seed();
    let mut all: Vec<Scenario> = vec![];
    for p in ["C05", "C13", "C14", "C18", "C20"] {
        let l = lanes_for(p, "quick", seed);
        let step = (l.len() / n.max(1)).max(1);
        all.extend(l.into_iter().step_by(step));
    }
    // two scrut processes at the same time: the interleaving must replay as well
    all.extend(gen_cli::lane_duo(seed ^ 0x5e1f, n.min(400)));
    println!("vsim: determinism self-test over {} scenarios, each run twice on different workers", all.len());
    let scenarios = Arc::new(all);
    let run = |threads: usize| -> Vec<String> {
        let next = Arc::new(std::sync::atomic::AtomicUsize::new(0));
        let out = Arc::new(std::sync::Mutex::new(vec![String::new(); scenarios.len()]));
        let mut hs = vec![];
        for _ in 0..threads {
            let scenarios = scenarios.clone();
            let next = next.clone();
            let out = out.clone();
            hs.push(
                std::thread::Builder::new()
                    .stack_size(1 << 30)
                    .spawn(move || loop {
                        let i = next.fetch_add(1, std::sync::atomic::Ordering::SeqCst);
                        if i >= scenarios.len() {
                            break;
                        }
                        let obs = run_scenario(&scenarios[i]);
                        let s = normalised_log(&obs);
                        out.lock().unwrap()[i] = s;
                    })
                    .unwrap(),
            );
        }
        for h in hs {
            let _ = h.join();
        }
        Arc::try_unwrap(out).ok().unwrap().into_inner().unwrap()
    };
    let a = run(4);
    let b = run(threads());
    let mut bad = 0;
    for i in 0..a.len() {
        if a[i] != b[i] {
            bad += 1;
            if bad <= 3 {
                println!("NON-DETERMINISTIC: lane {}", scenarios[i].lane);
                for (la, lb) in a[i].lines().zip(b[i].lines()) {
                    if la != lb {
                        println!("  run1: {}\n  run2: {}", &la[..la.len().min(300)], &lb[..lb.len().min(300)]);
                        break;
                    }
                }
            }
        }
    }
    println!("vsim: {} of {} scenarios differ between two runs", bad, a.len());
    if bad > 0 { 2 } else { 0 }
}

#[allow(clippy::too_many_arguments)]
fn write_evidence(
    prop: &str,
    tier: &str,
    seed: u64,
    st: &Stats,
    violations: usize,
    known: usize,
    wall_s: f64,
    real: &Option<real::RealReport>,
) {
    let _ = std::fs::create_dir_all(format!("{}/evidence", out_dir()));
    let runs_per_hour = if wall_s > 0.0 { st.runs as f64 / wall_s * 3600.0 } else { 0.0 };
    let components = serde_json::json!({
        "real code": ["StatefulExecutor", "BashScriptExecutor", "BashRunner (template substitution)", "SubprocessRunner", "TestCase::validate / render_output", "DiffTool", "config merge",
            "Cli tier additionally: main(), `scrut test` command, FileParser, Markdown/Cram parsers, TestEnvironment, renderers",
            "temp / state / work directories on the real filesystem"],
        "stub": ["subprocess crate (spawn, pipes, poll loop = transcription of 0.2.15, deadline, wait)", "kernel pipes and process table", "bash and the body of bash_runner.template (front-end reads two anchors)", "Instant / sleep (virtual clock)"],
        "real tier (C12 carrier, C13 conformance, C18 environment as seen by the test cases)": "real bash processes through the pass-through seam; strictly sequential"
    });
    let mut coverage = serde_json::json!({
        "evaluations": st.runs,
        "distinct_nontrivial": st.signatures.len(),
        "rule": "one evaluation = one simulated run of scrut (scenario + decision tape = one exactly repeatable execution). Scenarios come from systematic lanes (small cross products enumerated completely) and seeded random swarm lanes. A run is non-trivial if at least one child process was spawned (or a spawn was refused); runs are distinct by signature = (tier, execution mode, per document: stop reason, per test: program fate / report obtained / how communication ended, fault kinds fired, exit status).",
        "samples": st.samples,
        "exhaustive": false,
        "runs_by_tier": st.by_tier,
        "runs_by_lane": st.lanes,
        "runs_per_hour": runs_per_hour as u64,
        "simulated_time_hours": st.sim_time_ns as f64 / 3.6e12,
        "events_processed": st.events,
        "children_spawned": st.spawns,
        "fault_kinds_fired": st.fault_fired,
        "reach_probes": st.probes,
        "components": components,
        "known_findings_hit": known,
    });
    if let Some(r) = real {
        coverage["real_tier"] = r.coverage.clone();
    }
    let ev = serde_json::json!({
        "property_id": prop,
        "tier": if tier == "thorough" { "thorough" } else { "quick" },
        "seed": seed,
        "level": "exploration",
        "coverage": coverage,
        "assumptions": [
            "the simulated poll/pipe semantics (Linux pipe_poll, PIPE_BUF atomic writes) and the transcription of subprocess 0.2.15's communicate loop are faithful",
            "the simulated shell reads only two anchors of bash_runner.template (state path, persist flag) and the divider echo lines of the compiled script; bash itself is not simulated",
            "expectation acceptance is decided by construction (exact lines => accept, one perturbed line => reject), inside the envelope where the diff is an iff",
            "a clean batch is evidence, not proof: seeded sampling plus small exhaustive lanes"
        ],
        "wall_s": wall_s,
        "violations": violations,
    });
    let path = format!("{}/evidence/{}.json", out_dir(), prop);
    let _ = std::fs::write(&path, serde_json::to_string_pretty(&ev).unwrap());
}
