mod obs;
mod runlib;
mod scn;

use scrut::verif_sim::scenario::*;
use scn::*;

fn main() {
    let args: Vec<String> = std::env::args().collect();
    match args.get(1).map(|s| s.as_str()) {
        Some("smoke") => smoke(),
        _ => {
            eprintln!("usage: vsim smoke");
            std::process::exit(2);
        }
    }
}

fn smoke() {
    let mut sim = SimScenario::default();
    sim.seed = 1;
    let n1 = "aaaaaaaaaaa1".to_string();
    let n2 = "aaaaaaaaaaa2".to_string();
    sim.programs.insert(
        n1.clone(),
        vec![
            Op::Out { fd: 1, data: "hello\n".into() },
            Op::Out { fd: 2, data: "err\n".into() },
            Op::Sleep { ns: 3_000_000_000 },
            Op::Status { code: 0 },
        ],
    );
    sim.programs.insert(n2.clone(), vec![Op::Out { fd: 1, data: "two\n".into() }, Op::Status { code: 3 }]);
    let mk = |n: &str, exp: &str, code: Option<i32>, to: Option<u64>| Test {
        nonce: n.to_string(),
        title: format!("t {}", n),
        expr: format!("vsim @vs:{}@ payload @ve:{}@", n, n),
        expected_code: code,
        expectations: vec![exp.to_string()],
        expect_match: true,
        cfg: TestCfg { timeout_ns: to, ..Default::default() },
    };
    let sc = Scenario {
        lane: "smoke".into(),
        tier: Tier::Lib,
        script_mode: std::env::var("SCRIPT").is_ok(),
        docs: vec![Doc {
            path: "smoke.md".into(),
            format: Format::Md,
            total_timeout_ns: Some(1_000_000_000),
            defaults: Default::default(),
            prepend: vec![],
            append: vec![],
            tests: vec![mk(&n1, "hello", None, if std::env::var("SCRIPT").is_ok() {None} else {Some(5_000_000_000)}), mk(&n2, "two", Some(3), None)],
            main: true,
            raw: None,
        }],
        cli: Default::default(),
        sim,
        check: vec![],
    };
    let obs = runlib::run_lib(&sc);
    for e in &obs.log {
        println!("{}", serde_json::to_string(e).unwrap());
    }
    println!("{}", serde_json::to_string_pretty(&obs.docs).unwrap());
    println!("abort={:?} panic={:?} fs_after={:?} herr={:?}", obs.sim_abort, obs.panic, obs.fs_after, obs.harness_error);
}
