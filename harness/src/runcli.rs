//! Tier S-cli: the hooked `scrut` binary, one OS process per simulated run, all of its
//! children simulated inside it.

use std::collections::BTreeMap;
use std::io::Read;
use std::path::Path;
use std::path::PathBuf;
use std::process::Command;
use std::process::Stdio;

use scrut::verif_sim::scenario::*;

use crate::obs::*;
use crate::oracle::exec_list;
use crate::scn::*;

pub fn scrut_bin() -> PathBuf {
    std::env::var("VSIM_SCRUT_BIN")
        .map(PathBuf::from)
        .unwrap_or_else(|_| PathBuf::from("/verif/target/debug/scrut"))
}

pub fn dur(ns: u64) -> String {
    if ns % 1_000_000_000 == 0 {
        format!("{}s", ns / 1_000_000_000)
    } else if ns % 1_000_000 == 0 {
        format!("{}ms", ns / 1_000_000)
    } else if ns % 1_000 == 0 {
        format!("{}us", ns / 1_000)
    } else {
        format!("{}ns", ns)
    }
}

fn stream_name(s: Stream) -> &'static str {
    match s {
        Stream::Stdout => "stdout",
        Stream::Stderr => "stderr",
        Stream::Combined => "combined",
    }
}

fn yq(s: &str) -> String {
    format!("\"{}\"", s.replace('\\', "\\\\").replace('"', "\\\""))
}

/// flow-style YAML of a test configuration
pub fn cfg_flow(c: &TestCfg) -> Vec<String> {
    let mut parts = vec![];
    if let Some(t) = c.timeout_ns {
        parts.push(format!("timeout: {}", dur(t)));
    }
    if let Some(w) = &c.wait {
        match &w.path {
            Some(p) => parts.push(format!("wait: {{timeout: {}, path: {}}}", dur(w.timeout_ns), yq(p))),
            None => parts.push(format!("wait: {}", dur(w.timeout_ns))),
        }
    }
    if let Some(d) = c.detached {
        parts.push(format!("detached: {}", d));
    }
    if let Some(s) = c.output_stream {
        parts.push(format!("output_stream: {}", stream_name(s)));
    }
    if let Some(k) = c.keep_crlf {
        parts.push(format!("keep_crlf: {}", k));
    }
    if let Some(k) = c.strip_ansi {
        parts.push(format!("strip_ansi_escaping: {}", k));
    }
    if let Some(k) = c.skip_code {
        parts.push(format!("skip_document_code: {}", k));
    }
    if !c.env.is_empty() {
        let e: Vec<String> = c.env.iter().map(|(k, v)| format!("{}: {}", k, yq(v))).collect();
        parts.push(format!("environment: {{{}}}", e.join(", ")));
    }
    parts
}

/// text of a document and, per nonce, the 1-based line number of its `$` line
pub fn render_doc(d: &Doc) -> (String, BTreeMap<String, usize>) {
    let mut lines: Vec<String> = vec![];
    let mut at = BTreeMap::new();
    if let Some(raw) = &d.raw {
        return (raw.clone(), at);
    }
    match d.format {
        Format::Md => {
            let dflt = cfg_flow(&d.defaults);
            if d.total_timeout_ns.is_some() || !dflt.is_empty() || !d.prepend.is_empty() || !d.append.is_empty() || d.shell.is_some() || d.loose_front_matter {
                lines.push("---".into());
                let from = lines.len();
                if let Some(sh) = &d.shell {
                    lines.push(format!("shell: {}", yq(sh)));
                }
                if let Some(t) = d.total_timeout_ns {
                    lines.push(format!("total_timeout: {}", dur(t)));
                }
                if !dflt.is_empty() {
                    lines.push(format!("defaults: {{{}}}", dflt.join(", ")));
                }
                if !d.prepend.is_empty() {
                    lines.push(format!("prepend: [{}]", d.prepend.iter().map(|p| yq(p)).collect::<Vec<_>>().join(", ")));
                }
                if !d.append.is_empty() {
                    lines.push(format!("append: [{}]", d.append.iter().map(|p| yq(p)).collect::<Vec<_>>().join(", ")));
                }
                if d.loose_front_matter {
                    // a blank line before, between and after the keys
                    let mut keys: Vec<String> = lines.drain(from..).collect();
                    if keys.is_empty() {
                        keys.push("defaults: {}".into());
                    }
                    lines.push("".into());
                    for k in keys {
                        lines.push(k);
                        lines.push("".into());
                    }
                    lines.push("# a comment".into());
                    lines.push("".into());
                }
                lines.push("---".into());
                lines.push("".into());
            }
            lines.push(format!("# Document {}", d.path));
            lines.push("".into());
            for (k, t) in d.tests.iter().enumerate() {
                if k == 1 && d.pad_lines > 0 {
                    lines.extend(std::iter::repeat(String::new()).take(d.pad_lines));
                }
                lines.push(format!("## {}", t.title));
                lines.push("".into());
                let c = cfg_flow(&t.cfg);
                let tail = if d.fence_trailing_space { " " } else { "" };
                if c.is_empty() {
                    lines.push(format!("```scrut{}", tail));
                } else {
                    let gap = if d.fence_wide_gap { if k % 2 == 0 { "  " } else { " \t" } } else { " " };
                    lines.push(format!("```scrut{}{{{}}}{}", gap, c.join(", "), tail));
                }
                for (i, l) in t.expr.split('\n').enumerate() {
                    if i == 0 {
                        at.insert(t.nonce.clone(), lines.len() + 1);
                        lines.push(format!("$ {}", l));
                    } else {
                        lines.push(format!("> {}", l));
                    }
                }
                for e in &t.expectations {
                    lines.push(e.clone());
                }
                if let Some(c) = t.expected_code {
                    lines.push(format!("[{}]", c));
                }
                lines.push(if d.long_closing_fence { "````".into() } else { "```".into() });
                lines.push("".into());
            }
        }
        Format::Cram => {
            lines.push(format!("Document {}", d.path));
            lines.push("".into());
            for (k, t) in d.tests.iter().enumerate() {
                if !d.compact || k == 0 {
                    lines.push(t.title.clone());
                }
                for (i, l) in t.expr.split('\n').enumerate() {
                    if i == 0 {
                        at.insert(t.nonce.clone(), lines.len() + 1);
                        lines.push(format!("  $ {}", l));
                    } else {
                        lines.push(format!("  > {}", l));
                    }
                }
                for e in &t.expectations {
                    lines.push(format!("  {}", e));
                }
                if let Some(c) = t.expected_code {
                    lines.push(format!("  [{}]", c));
                }
                if !d.compact || k + 1 == d.tests.len() {
                    lines.push("".into());
                }
            }
            if d.compact {
                lines.push("the block is not the end of the file".into());
            }
        }
    }
    let mut text = lines.join("\n");
    text.push('\n');
    (text, at)
}

fn scratch_root() -> PathBuf {
    let p = std::env::var("VSIM_SCRATCH").unwrap_or_else(|_| "/verif/scratch".into());
    let p = PathBuf::from(p);
    let _ = std::fs::create_dir_all(&p);
    p
}

fn parse_log(text: &str, obs: &mut Observation) {
    for line in text.lines() {
        if line.trim().is_empty() {
            continue;
        }
        if line.contains("\"ev\":\"tape\"") {
            if let Ok(v) = serde_json::from_str::<serde_json::Value>(line) {
                if let Some(p) = v.get("picks").and_then(|p| p.as_array()) {
                    obs.tape = p.iter().filter_map(|x| x.as_u64()).collect();
                }
                obs.end_time_ns = v.get("end_time_ns").and_then(|x| x.as_u64()).unwrap_or(0);
                obs.events = v.get("events").and_then(|x| x.as_u64()).unwrap_or(0);
            }
            continue;
        }
        match serde_json::from_str::<LogEntry>(line) {
            Ok(e) => obs.log.push(e),
            Err(e) => {
                obs.harness_error = Some(format!("unreadable log line ({}): {}", e, &line[..line.len().min(200)]));
            }
        }
    }
}

fn report_from_json(r: &serde_json::Value) -> Report {
    match r.get("kind").and_then(|k| k.as_str()).unwrap_or("") {
        "success" => Report::Success,
        "malformed_output" => Report::Malformed,
        "invalid_exit_code" => Report::InvalidExitCode {
            actual: r.get("actual").and_then(|x| x.as_i64()).unwrap_or(-999) as i32,
            expected: r.get("expected").and_then(|x| x.as_i64()).unwrap_or(-999) as i32,
        },
        "internal_error" => Report::Internal,
        "timeout" => Report::Timeout,
        "skipped" => Report::Skipped,
        _ => Report::Internal,
    }
}

pub struct CliRun {
    pub root: tempfile::TempDir,
    pub obs: Observation,
}

/// `renderer`: "json" (reports) or "pretty" (summary line)
pub fn run_cli(sc: &Scenario, renderer: &str) -> Observation {
    if sc.partner.is_some() {
        return run_duo(sc, renderer);
    }
    let root = match tempfile::Builder::new().prefix("vc.").tempdir_in(scratch_root()) {
        Ok(r) => r,
        Err(e) => {
            return Observation { harness_error: Some(format!("scratch dir: {}", e)), ..Default::default() };
        }
    };
    let rootp = root.path().to_path_buf();
    // (a function of the scenario: every third one has blanks and a quote in these names)
    let odd_names = sc.sim.seed % 3 == 0;
    let tmp_root = rootp.join(if odd_names { "t m'p" } else { "tmp" });
    let work = rootp.join(if odd_names { "wo rk" } else { "work" });
    let mut prep = match prepare(sc, renderer, &rootp, "s", &tmp_root, &work) {
        Ok(p) => p,
        Err(obs) => return obs,
    };
    let ended = spawn_and_wait(&mut prep);
    let obs = finish(sc, renderer, prep, ended);
    drop(root);
    obs
}

/// everything that is set up before the scrut process is started
pub struct Prepared {
    pub obs: Observation,
    pub cmd: Command,
    pub info: CliInfo,
    pub sim: SimScenario,
    pub log_path: PathBuf,
}

/// how the scrut process ended and what it wrote
pub struct Ended {
    pub status: std::io::Result<std::process::ExitStatus>,
    pub stdout: Vec<u8>,
    pub stderr: String,
    pub watchdog: bool,
}

/// `rootp`: this process' private directory (documents, scenario, log); `tmp_root` / `work`: its
/// $TMPDIR and --work-directory (shared with the other process in a duo run)
/// `tag`: "s" alone, "a" / "b" in a duo run (same length, so that every path scrut sees is as long as
/// when the scenario runs alone)
fn prepare(sc: &Scenario, renderer: &str, rootp: &Path, tag: &str, tmp_root: &Path, work: &Path) -> Result<Prepared, Observation> {
    let mut obs = Observation::default();
    let rootp = rootp.to_path_buf();
    let tmp_root = tmp_root.to_path_buf();
    let work = work.to_path_buf();
    let doc_root = rootp.join(format!("doc{}", tag));
    let _ = std::fs::create_dir_all(&doc_root);
    let _ = std::fs::create_dir_all(&tmp_root);
    if sc.cli.work_directory {
        let _ = std::fs::create_dir_all(&work);
        // something of the user's that must survive the run
        let _ = std::fs::write(work.join("users-own-file.txt"), b"keep me\n");
        let _ = std::fs::create_dir_all(work.join("users-own-dir"));
    }
    let mut info = CliInfo {
        tmp_root: tmp_root.to_string_lossy().into_owned(),
        doc_root: doc_root.to_string_lossy().into_owned(),
        work_dir: if sc.cli.work_directory {
            Some(work.to_string_lossy().into_owned())
        } else {
            None
        },
        ..Default::default()
    };
    // documents
    for d in &sc.docs {
        let (text, at) = render_doc(d);
        let mut p = doc_root.join(&d.path);
        if let Some(real) = &d.stored_at {
            // the directory of `path` is a symbolic link to the directory the file is stored in
            let realp = doc_root.join(real);
            if let (Some(link_dir), Some(real_dir)) = (p.parent().map(|x| x.to_path_buf()), realp.parent().map(|x| x.to_path_buf())) {
                let _ = std::fs::create_dir_all(&real_dir);
                if let Some(pp) = link_dir.parent() {
                    let _ = std::fs::create_dir_all(pp);
                }
                if d.file_symlink {
                    // the document itself is the link
                    let _ = std::fs::create_dir_all(&link_dir);
                    let _ = std::fs::write(&realp, &text);
                    let _ = std::os::unix::fs::symlink(&realp, &p);
                    info.dollar_line.extend(at);
                    info.doc_path.insert(d.path.clone(), if sc.cli.relative_paths { d.path.clone() } else { p.to_string_lossy().into_owned() });
                    continue;
                } else if !link_dir.exists() {
                    let _ = std::os::unix::fs::symlink(&real_dir, &link_dir);
                }
            }
            p = doc_root.join(&d.path);
        }
        if let Some(parent) = p.parent() {
            let _ = std::fs::create_dir_all(parent);
        }
        let written = match d.unreadable.as_deref() {
            Some("dangling") => std::os::unix::fs::symlink("no-such-target-of-this-link.md", &p),
            Some(_) => std::fs::write(&p, b"# caf\xe9 \xff\xfe\n\n```scrut\n$ echo \xe9\n```\n"),
            None => std::fs::write(&p, text),
        };
        if let Err(e) = written {
            obs.harness_error = Some(format!("write {}: {}", p.display(), e));
            return Err(obs);
        }
        info.dollar_line.extend(at);
        // (scrut is started in doc_root)
        info.doc_path.insert(d.path.clone(), if sc.cli.relative_paths { d.path.clone() } else { p.to_string_lossy().into_owned() });
    }
    // simulator scenario: absolute peer paths and snapshot roots
    let mut sim = sc.sim.clone();
    sim.snapshot_dirs = vec![info.tmp_root.clone()];
    if let Some(w) = &info.work_dir {
        sim.snapshot_dirs.push(w.clone());
    }
    for a in sim.peer.iter_mut() {
        a.path = a
            .path
            .replace("$TMP", &info.tmp_root)
            .replace("$WORK", &work.to_string_lossy());
    }
    let sim_path = rootp.join(format!("scenario-{}.json", tag));
    let log_path = rootp.join(format!("log-{}.jsonl", tag));
    if let Err(e) = std::fs::write(&sim_path, serde_json::to_string(&sim).unwrap()) {
        obs.harness_error = Some(format!("write scenario: {}", e));
        return Err(obs);
    }
    // command line
    let update = sc.cli.command.is_some();
    let create = sc.cli.command.as_deref() == Some("create");
    let mut args: Vec<String> = if create {
        vec!["create".into(), "--no-color".into()]
    } else if update {
        vec!["update".into(), "-y".into(), "--no-color".into()]
    } else {
        vec!["test".into(), "-r".into(), renderer.into(), "--no-color".into()]
    };
    if let Some(t) = sc.cli.timeout_seconds {
        args.push("--timeout-seconds".into());
        args.push(t.to_string());
    }
    match (sc.cli.combine_output, sc.cli.negated_first) {
        (Some(true), false) => args.push("--combine-output".into()),
        (Some(false), false) => args.push("--no-combine-output".into()),
        (Some(true), true) => args.extend(["--no-combine-output".to_string(), "--combine-output".to_string()]),
        (Some(false), true) => args.extend(["--combine-output".to_string(), "--no-combine-output".to_string()]),
        (None, _) => {}
    }
    match (sc.cli.keep_crlf, sc.cli.negated_first) {
        (Some(true), false) => args.push("--keep-output-crlf".into()),
        (Some(false), false) => args.push("--no-keep-output-crlf".into()),
        (Some(true), true) => args.extend(["--no-keep-output-crlf".to_string(), "--keep-output-crlf".to_string()]),
        (Some(false), true) => args.extend(["--keep-output-crlf".to_string(), "--no-keep-output-crlf".to_string()]),
        (None, _) => {}
    }
    if sc.cli.cram_compat {
        args.push("--cram-compat".into());
    }
    if sc.cli.debug {
        args.push("--debug".into());
    }
    if sc.cli.verbose && !update {
        args.push("--verbose".into());
    }
    if let Some(l) = &sc.cli.log_level {
        args.push("--log-level".into());
        args.push(l.clone());
    }
    // a shell named by a bare command name is looked up in PATH - an entry of the same name in the
    // directory scrut is started in is none of its business
    for name in sc.cli.shell.iter().chain(sc.docs.iter().filter_map(|d| d.shell.as_ref())) {
        if !name.contains('/') {
            let _ = std::fs::create_dir_all(doc_root.join(name).join("completions"));
        }
    }
    if sc.cli.work_directory {
        args.push("--work-directory".into());
        args.push(work.to_string_lossy().into_owned());
    }
    if sc.cli.keep_tmp {
        args.push("--keep-temporary-directories".into());
    }
    if let Some(s) = &sc.cli.shell {
        args.push("--shell".into());
        args.push(s.clone());
    }
    if create {
        // the expression of the first test case is what `scrut create` is asked to run
        if let Some(t) = sc.docs.iter().find(|d| d.main).and_then(|d| d.tests.first()) {
            args.push("--".into());
            args.push(t.expr.clone());
        }
    } else if sc.cli.as_directory {
        // all main documents live in one directory that holds nothing else
        let mut dirs: Vec<String> = sc
            .docs
            .iter()
            .filter(|d| d.main)
            .map(|d| {
                let p = &info.doc_path[&d.path];
                p[..p.rfind('/').unwrap_or(0)].to_string()
            })
            .collect();
        dirs.sort();
        dirs.dedup();
        // the scan is recursive: only the outermost directories are given
        let outer: Vec<String> = dirs
            .iter()
            .filter(|d| !dirs.iter().any(|o| o != *d && d.starts_with(&format!("{}/", o))))
            .cloned()
            .collect();
        args.extend(outer);
    } else {
        for d in sc.docs.iter().filter(|d| d.main) {
            args.push(info.doc_path[&d.path].clone());
        }
    }
    for m in &sc.cli.missing_paths {
        args.push(doc_root.join(m).to_string_lossy().into_owned());
    }
    if !sc.cli.prepend.is_empty() {
        args.push("-P".into());
        for p in &sc.cli.prepend {
            args.push(if sc.cli.relative_paths { p.clone() } else { doc_root.join(p).to_string_lossy().into_owned() });
        }
    }
    if !sc.cli.append.is_empty() {
        args.push("-A".into());
        for p in &sc.cli.append {
            args.push(if sc.cli.relative_paths { p.clone() } else { doc_root.join(p).to_string_lossy().into_owned() });
        }
    }
    info.args = args.clone();

    let mut cmd = Command::new(scrut_bin());
    cmd.args(&args)
        .current_dir(&doc_root)
        .env_clear()
        .env("PATH", "/usr/local/bin:/usr/bin:/bin")
        .env("HOME", &rootp)
        .env("TMPDIR", &tmp_root)
        .env("SCRUT_VERIF_SCENARIO", &sim_path)
        .env("SCRUT_VERIF_LOG", &log_path)
        // (every other scenario: scrut itself is started with values for the variables it
        // documents as set by scrut - what a test case gets must not depend on them)
        .envs(if sc.sim.seed % 2 == 1 {
            vec![
                ("COLUMNS", "132"),
                ("LANG", "C.UTF-8"),
                ("LANGUAGE", "de"),
                ("LC_ALL", "C.UTF-8"),
                ("TZ", "Europe/Berlin"),
                ("CDPATH", "/usr:/tmp"),
                ("GREP_OPTIONS", "--color=always"),
                ("TESTDIR", "/inherited/testdir"),
                ("TESTFILE", "inherited.md"),
                ("TESTSHELL", "/bin/false"),
                ("SCRUT_TEST", "inherited.md:1"),
                ("CRAMTMP", "/inherited/cramtmp"),
            ]
        } else {
            vec![]
        })
        .stdin(Stdio::null())
        .stdout(Stdio::piped())
        .stderr(Stdio::piped());
    for (k, v) in &sc.cli.host_env {
        let v = v.replace("$ROOT", &rootp.to_string_lossy());
        if k == "PWD" || k == "SCRUT_WORK_DIRECTORY" {
            let _ = std::fs::create_dir_all(&v);
        }
        cmd.env(k, v);
    }
    Ok(Prepared { obs, cmd, info, sim, log_path })
}

pub struct Running {
    child: std::process::Child,
    th_err: std::thread::JoinHandle<String>,
    th_out: std::thread::JoinHandle<Vec<u8>>,
}

fn start(prep: &mut Prepared) -> Result<Running, String> {
    let mut child = prep.cmd.spawn().map_err(|e| format!("cannot start {}: {}", scrut_bin().display(), e))?;
    // read both streams without deadlock
    let mut so = child.stdout.take().unwrap();
    let mut se = child.stderr.take().unwrap();
    let th_err = std::thread::spawn(move || {
        let mut s = String::new();
        let mut b = vec![];
        let _ = se.read_to_end(&mut b);
        s.push_str(&String::from_utf8_lossy(&b));
        s
    });
    let th_out = std::thread::spawn(move || {
        let mut b = vec![];
        let _ = so.read_to_end(&mut b);
        b
    });
    Ok(Running { child, th_err, th_out })
}

fn wait_end(mut r: Running, limit_s: u64) -> Ended {
    // wall-clock watchdog: inside the simulation nothing can take long; a scrut that spins
    // outside of it must not hang the check
    let started = std::time::Instant::now();
    let mut watchdog = false;
    let status = loop {
        match r.child.try_wait() {
            Ok(Some(s)) => break Ok(s),
            Ok(None) => {
                if started.elapsed() > std::time::Duration::from_secs(limit_s) {
                    let _ = r.child.kill();
                    watchdog = true;
                    break r.child.wait();
                }
                std::thread::sleep(std::time::Duration::from_millis(2));
            }
            Err(e) => break Err(e),
        }
    };
    let stdout = r.th_out.join().unwrap_or_default();
    let stderr = r.th_err.join().unwrap_or_default();
    Ended { status, stdout, stderr, watchdog }
}

fn spawn_and_wait(prep: &mut Prepared) -> Ended {
    match start(prep) {
        Ok(r) => wait_end(r, 180),
        Err(e) => Ended { status: Err(std::io::Error::new(std::io::ErrorKind::Other, e)), stdout: vec![], stderr: String::new(), watchdog: false },
    }
}

fn finish(sc: &Scenario, renderer: &str, prep: Prepared, ended: Ended) -> Observation {
    let Prepared { mut obs, info, sim, log_path, .. } = prep;
    let update = sc.cli.command.is_some();
    if ended.watchdog {
        obs.harness_error = Some("the scrut process did not end within 180 s of wall time".into());
    }
    obs.stderr = ended.stderr;
    obs.stdout = String::from_utf8_lossy(&ended.stdout).into_owned();
    match ended.status {
        Ok(s) => {
            obs.exit_status = s.code();
            #[cfg(unix)]
            {
                use std::os::unix::process::ExitStatusExt;
                obs.exit_signal = s.signal();
            }
        }
        Err(e) => {
            obs.harness_error = Some(format!("start / wait: {}", e));
        }
    }
    // scrut's own stderr was cut off (Fault::OutputClosed, stderr only): when scrut then ends with
    // an error, writing the message fails and the unchanged tree ends in a panic (101) instead of 1.
    // The panic is recorded as an observation in DESIGN; for the oracles such a run "ended with 1"
    // (wherever 1 is not allowed it is reported all the same).
    if obs.exit_status == Some(101) && sim.faults.iter().any(|f| matches!(f, Fault::OutputClosed { which: 2, .. })) {
        obs.exit_status = Some(1);
    }
    // the same for scrut's stdout in the lane that looks at nothing but the exit status
    // (`closed-stdout`: the report cannot be written, `print!` panics): "ended with 1"
    if obs.exit_status == Some(101) && sc.lane.starts_with("closed-stdout/") && sim.faults.iter().any(|f| matches!(f, Fault::OutputClosed { which: 1, .. })) {
        obs.exit_status = Some(1);
    }
    // scrut panicked: an observation (no report can be expected), not a problem of the harness
    if obs.exit_status == Some(101) {
        obs.panic = Some(obs.stderr.lines().find(|l| l.contains("panicked")).unwrap_or("exit status 101").chars().take(200).collect());
    }
    if obs.exit_status == Some(98) {
        obs.harness_error = Some(format!("simulator could not start: {}", obs.stderr));
    }
    if obs.exit_status == Some(97) {
        obs.sim_abort = Some("stopped".into());
    }
    if let Ok(text) = std::fs::read_to_string(&log_path) {
        parse_log(&text, &mut obs);
    }
    for e in &obs.log {
        match &e.ev {
            LogEv::HangForever { site } => obs.sim_abort = Some(format!("hang_forever:{}", site)),
            LogEv::EventCap => obs.sim_abort = Some("event_cap".into()),
            _ => {}
        }
    }
    // the report
    let mains: Vec<usize> = sc.docs.iter().enumerate().filter(|(_, d)| d.main).map(|(i, _)| i).collect();
    let mut by_doc: BTreeMap<usize, DocObs> = BTreeMap::new();
    for &di in &mains {
        let tests = exec_list(sc, &sc.docs[di])
            .iter()
            .map(|(_, t)| TestObs {
                nonce: t.nonce.clone(),
                results: 0,
                report: Report::None,
                further: vec![],
                raw: None,
                raw_lossy: false,
            })
            .collect();
        by_doc.insert(
            di,
            DocObs {
                doc: di,
                exec: ExecResult::Unknown,
                tests,
            },
        );
    }
    if renderer == "json" && !update && obs.exit_status != Some(1) && obs.exit_status != Some(101) && obs.exit_status.is_some() && obs.sim_abort.is_none() {
        match serde_json::from_str::<serde_json::Value>(&obs.stdout) {
            Ok(serde_json::Value::Array(items)) => {
                let mut cursor: BTreeMap<usize, usize> = BTreeMap::new();
                for it in items {
                    let loc = it.get("location").and_then(|l| l.as_str()).unwrap_or("");
                    let title = it
                        .get("title")
                        .and_then(|t| t.as_str())
                        .or_else(|| it.get("testcase").and_then(|t| t.get("title")).and_then(|t| t.as_str()))
                        .unwrap_or("");
                    let report = it.get("result").map(report_from_json).unwrap_or(Report::Internal);
                    let di = mains.iter().find(|&&di| info.doc_path[&sc.docs[di].path] == loc).copied();
                    let mut placed = false;
                    // (a failed test case also comes with its expression, which names it too)
                    let expr = it.get("testcase").and_then(|t| t.get("shell_expression")).and_then(|t| t.as_str()).unwrap_or("");
                    if let Some(di) = di {
                        if let Some(dobs) = by_doc.get_mut(&di) {
                            let mut idx = dobs.tests.iter().position(|t| title.contains(&t.nonce) || expr.contains(&t.nonce));
                            // untitled test cases of a one-block Cram document: by position
                            if idx.is_none() && sc.docs[di].compact && title.is_empty() {
                                let next = cursor.get(&di).map(|c| c + 1).unwrap_or(0);
                                if next < dobs.tests.len() {
                                    idx = Some(next);
                                }
                            }
                            if let Some(i) = idx {
                                cursor.insert(di, i);
                            }
                            if let Some(t) = idx.map(|i| &mut dobs.tests[i]) {
                                t.results += 1;
                                if t.results > 1 {
                                    t.further.push(report.clone());
                                }
                                if t.results == 1 {
                                    t.report = report.clone();
                                    // failed test cases come with what scrut recorded
                                    if let Some(o) = it.get("output") {
                                        let s = |k: &str| o.get(k).and_then(|x| x.as_str()).map(|x| x.as_bytes().to_vec());
                                        let code = o.get("exit_code").and_then(|x| x.as_str()).and_then(|x| x.parse::<i32>().ok());
                                        if let (Some(so), Some(se), Some(code)) = (s("stdout"), s("stderr"), code) {
                                            t.raw = Some(RawOut { stdout: Bytes(so), stderr: Bytes(se), exit: ExitObs::Code { code } });
                                            t.raw_lossy = true;
                                        }
                                    }
                                }
                                placed = true;
                            }
                        }
                    }
                    if !placed {
                        obs.stray_results += 1;
                    }
                }
            }
            Ok(_) | Err(_) => {
                obs.harness_error = Some(format!(
                    "report is not a JSON array (exit {:?}): {}",
                    obs.exit_status,
                    &obs.stdout[..obs.stdout.len().min(300)]
                ));
            }
        }
    }
    if renderer == "pretty" {
        // "Result: 1 document(s) with 2 testcase(s): 1 succeeded, 1 failed and 0 skipped"
        let re = regex::Regex::new(r"(\d+) succeeded, (\d+) failed and (\d+) skipped").unwrap();
        if let Some(c) = re.captures(&obs.stdout) {
            obs.summary = Summary {
                succeeded: c[1].parse().ok(),
                failed: c[2].parse().ok(),
                skipped: c[3].parse().ok(),
            };
        }
    }
    // documents in execution order (by the first process that served them)
    let facts_first_pid = |d: &DocObs| -> u32 {
        let mut best = u32::MAX;
        for e in &obs.log {
            if let LogEv::Script { pid, data } = &e.ev {
                if d.tests.iter().any(|t| crate::facts::find(&data.0, format!("@vs:{}@", t.nonce).as_bytes()).is_some()) {
                    best = best.min(*pid);
                }
            }
        }
        best
    };
    let mut docs: Vec<DocObs> = by_doc.into_values().collect();
    docs.sort_by_key(|d| (facts_first_pid(d), d.doc));
    obs.docs = docs;

    // what is left on disk
    obs.fs_after.push((info.tmp_root.clone(), scrut::verif_sim::world::list_tree(&info.tmp_root)));
    if let Some(w) = &info.work_dir {
        obs.fs_after.push((w.clone(), scrut::verif_sim::world::list_tree(w)));
    }
    for a in &sim.peer {
        if Path::new(&a.path).exists() {
            obs.peer_survivors.push(a.path.clone());
        }
    }
    obs.cli = Some(info);
    obs
}

// ------------------------------------------------------------------ duo runs: two scrut processes at the same time

/// splitmix64: the interleaving of a duo run is drawn from the scenario's seed
fn mix(x: &mut u64) -> u64 {
    *x = x.wrapping_add(0x9e3779b97f4a7c15);
    let mut z = *x;
    z = (z ^ (z >> 30)).wrapping_mul(0xbf58476d1ce4e5b9);
    z = (z ^ (z >> 27)).wrapping_mul(0x94d049bb133111eb);
    z ^ (z >> 31)
}

/// one line (without the line break) from a process that announces a turn point; None = it
/// closed the connection, i.e. it has ended (or is about to)
fn read_label(s: &mut std::os::unix::net::UnixStream) -> std::io::Result<Option<String>> {
    let mut line = vec![];
    let mut b = [0u8; 1];
    loop {
        match s.read(&mut b) {
            Ok(0) => return Ok(None),
            Ok(_) => {
                if b[0] == b'\n' {
                    return Ok(Some(String::from_utf8_lossy(&line).into_owned()));
                }
                line.push(b[0]);
            }
            Err(e) if e.kind() == std::io::ErrorKind::Interrupted => {}
            Err(e) => return Err(e),
        }
    }
}

/// Two hooked scrut processes, each with its own scenario (its own simulated children, clock and
/// faults), run at the same time on ONE temporary root (and one --work-directory when both use
/// it). Each announces the points at which it is about to touch the shared file system (start,
/// every creation of a directory or temporary file, every spawn, the end of `main`) and waits;
/// the harness lets exactly one of them go on at a time, so the interleaving is its decision:
/// drawn from the seed, recorded in `turns`, and replayed exactly. Both scenarios are also run
/// alone first; the observation returned is the main scenario's next to its partner.
fn run_duo(sc: &Scenario, renderer: &str) -> Observation {
    use std::io::Write;
    let partner: &Scenario = sc.partner.as_ref().unwrap();
    let mut alone = sc.clone();
    alone.partner = None;
    alone.turns = None;
    let solo = run_cli(&alone, renderer);
    let partner_solo = run_cli(partner, renderer);
    let fail = |msg: String| Observation { harness_error: Some(msg), ..Default::default() };
    if let Some(e) = solo.harness_error.as_ref().or(partner_solo.harness_error.as_ref()) {
        return fail(format!("duo: solo run: {}", e));
    }
    let root = match tempfile::Builder::new().prefix("vc.").tempdir_in(scratch_root()) {
        Ok(r) => r,
        Err(e) => return fail(format!("scratch dir: {}", e)),
    };
    let rootp = root.path().to_path_buf();
    let odd_names = sc.sim.seed % 3 == 0;
    let tmp_root = rootp.join(if odd_names { "t m'p" } else { "tmp" });
    let work = rootp.join(if odd_names { "wo rk" } else { "work" });
    let scs = [&alone, partner];
    let mut preps = vec![];
    let mut listeners = vec![];
    for (i, s) in scs.iter().enumerate() {
        let tag = ["a", "b"][i];
        let mut p = match prepare(s, renderer, &rootp, tag, &tmp_root, &work) {
            Ok(p) => p,
            Err(o) => return o,
        };
        let sock = rootp.join(format!("turn-{}.sock", tag));
        let l = match std::os::unix::net::UnixListener::bind(&sock) {
            Ok(l) => l,
            Err(e) => return fail(format!("duo: bind {}: {}", sock.display(), e)),
        };
        let _ = l.set_nonblocking(true);
        p.cmd.env("SCRUT_VERIF_TURN", &sock);
        preps.push(p);
        listeners.push(l);
    }
    // start both; each parks at its first turn point (first statement of main) at the latest
    let mut running = vec![];
    for p in preps.iter_mut() {
        match start(p) {
            Ok(r) => running.push(Some(r)),
            Err(e) => return fail(format!("duo: {}", e)),
        }
    }
    let wall = std::time::Instant::now();
    let mut conns: Vec<Option<std::os::unix::net::UnixStream>> = vec![None, None];
    // parked[i]: the point process i has announced and waits at; None while it has not (yet)
    let mut parked: Vec<Option<String>> = vec![None, None];
    let mut ended = [false, false];
    for i in 0..2 {
        loop {
            match listeners[i].accept() {
                Ok((c, _)) => {
                    let _ = c.set_nonblocking(false);
                    let _ = c.set_read_timeout(Some(std::time::Duration::from_secs(180)));
                    conns[i] = Some(c);
                    break;
                }
                Err(e) if e.kind() == std::io::ErrorKind::WouldBlock => {
                    // (a process that ends before it ever connects - simulator could not start)
                    if let Some(r) = running[i].as_mut() {
                        if let Ok(Some(_)) = r.child.try_wait() {
                            ended[i] = true;
                            break;
                        }
                    }
                    if wall.elapsed() > std::time::Duration::from_secs(60) {
                        return fail("duo: a process did not reach its first turn point within 60 s".into());
                    }
                    std::thread::sleep(std::time::Duration::from_millis(1));
                }
                Err(e) => return fail(format!("duo: accept: {}", e)),
            }
        }
        if let Some(c) = conns[i].as_mut() {
            match read_label(c) {
                Ok(Some(l)) => parked[i] = Some(l),
                Ok(None) => ended[i] = true,
                Err(e) => return fail(format!("duo: first turn point: {}", e)),
            }
        }
    }
    let mut rng = sc.sim.seed ^ 0xd00d_u64;
    // (how sticky the scheduler is varies per run: long bursts and fine alternation both occur)
    let stick = [20u64, 50, 80][(mix(&mut rng) % 3) as usize];
    let mut taken: Vec<u8> = vec![];
    let mut labels: Vec<String> = vec![];
    let mut switches = 0u32;
    let mut last: Option<u8> = None;
    let mut results: Vec<Option<Ended>> = vec![None, None];
    loop {
        // a process that has ended is collected before anything else moves
        for i in 0..2 {
            if ended[i] && results[i].is_none() {
                if let Some(r) = running[i].take() {
                    results[i] = Some(wait_end(r, 180));
                }
            }
        }
        let can: Vec<u8> = (0..2u8).filter(|&i| parked[i as usize].is_some() && !ended[i as usize]).collect();
        if can.is_empty() {
            break;
        }
        let k = taken.len();
        let pick = match &sc.turns {
            Some(t) => match t.get(k) {
                Some(&w) if can.contains(&w) => w,
                _ => can[0],
            },
            None => {
                let r = mix(&mut rng);
                match last {
                    Some(l) if can.contains(&l) && r % 100 < stick => l,
                    _ => can[(r >> 8) as usize % can.len()],
                }
            }
        };
        if last.is_some() && last != Some(pick) {
            switches += 1;
        }
        last = Some(pick);
        taken.push(pick);
        let i = pick as usize;
        labels.push(format!("{}:{}", ["a", "b"][i], parked[i].take().unwrap_or_default()));
        let c = conns[i].as_mut().unwrap();
        if c.write_all(b"g").is_err() {
            ended[i] = true;
            continue;
        }
        match read_label(c) {
            Ok(Some(l)) => parked[i] = Some(l),
            Ok(None) => ended[i] = true,
            Err(e) => {
                // (read timeout: the process neither announced a point nor ended)
                if let Some(mut r) = running[i].take() {
                    let _ = r.child.kill();
                    let _ = wait_end(r, 5);
                }
                if let Some(mut r) = running[1 - i].take() {
                    let _ = r.child.kill();
                    let _ = wait_end(r, 5);
                }
                return fail(format!("duo: process {} stuck after {:?}: {}", i, labels.last(), e));
            }
        }
    }
    drop(conns);
    let mut obs_pair = vec![];
    for (i, p) in preps.into_iter().enumerate() {
        let e = match results[i].take() {
            Some(e) => e,
            None => match running[i].take() {
                Some(r) => wait_end(r, 180),
                None => return fail("duo: lost a process".into()),
            },
        };
        obs_pair.push(finish(scs[i], renderer, p, e));
    }
    let partner_obs = obs_pair.pop().unwrap();
    let mut obs = obs_pair.pop().unwrap();
    if let Some(e) = &partner_obs.harness_error {
        obs.harness_error = Some(format!("duo: partner: {}", e));
    }
    obs.duo = Some(Box::new(DuoObs { partner: partner_obs, solo, partner_solo, turns: taken, labels, switches }));
    drop(root);
    obs
}
