//! Turn the recorded history (event log) into per-process and per-test facts.

use std::collections::BTreeMap;

use scrut::verif_sim::scenario::*;

use crate::scn::*;

#[derive(Clone, Debug, Default)]
pub struct CmdFacts {
    pub nonce: String,
    pub start_t: u64,
    pub start_seq: u64,
    pub complete: bool,
    pub end_t: Option<u64>,
    pub status: Option<i32>,
    pub wrote1: u64,
    pub wrote2: u64,
    pub blocked_ns: u64,
}

#[derive(Clone, Debug, Default)]
pub struct ProcFacts {
    pub pid: u32,
    pub nth: u32,
    pub spawn_t: u64,
    pub spawn_seq: u64,
    pub spawn_ovh: u64,
    pub cwd: String,
    pub env: BTreeMap<String, String>,
    pub argv0: String,
    pub stdin_kind: String,
    pub stdout_kind: String,
    pub stderr_kind: String,
    pub detached: bool,
    pub cwd_exists: bool,
    pub tmpdir_exists: bool,
    pub script: Option<Vec<u8>>,
    pub script_seq: u64,
    /// nonces whose start marker occurs in the script, in order of occurrence
    pub script_nonces: Vec<String>,
    pub template: Option<(Option<String>, Option<u8>)>,
    pub exports: Vec<(String, String)>,
    pub state_read: Option<(String, Option<String>)>,
    pub state_write: Option<(String, String, u64)>,
    pub cmds: Vec<CmdFacts>,
    pub exit: Option<(u64, String, bool)>,
    pub exit_seq: u64,
    pub pipe_eof: [Option<u64>; 3],
    pub comm_begin: Option<(u64, u64, Option<u64>)>,
    /// (t, ovh, result, n_out, n_err, seq)
    pub comm_end: Option<(u64, u64, String, Option<u64>, Option<u64>, u64)>,
    pub wait: Option<(u64, String, u64)>,
    /// the first wait on this process (a later one may follow a kill)
    pub wait_first: Option<(u64, String, u64)>,
    pub killed: Option<(u64, u8, u64)>,
    pub parent_close: Option<(u64, u64)>,
    pub faults: Vec<String>,
    pub touches: Vec<(u64, String)>,
}

impl ProcFacts {
    pub fn exit_code(&self) -> Option<i32> {
        self.exit
            .as_ref()
            .and_then(|(_, s, _)| s.strip_prefix("code:").and_then(|c| c.parse().ok()))
    }
    pub fn exit_sig(&self) -> Option<i32> {
        self.exit
            .as_ref()
            .and_then(|(_, s, _)| s.strip_prefix("sig:").and_then(|c| c.parse().ok()))
    }
    pub fn comm_result(&self) -> Option<&str> {
        self.comm_end.as_ref().map(|c| c.2.as_str())
    }
    /// When and how scrut stopped waiting for this process: (t, ovh, "ok" | "timed_out").
    /// None when communication failed (no timing claim then).
    pub fn stopped_waiting(&self) -> Option<(u64, u64, &'static str)> {
        let ce = self.comm_end.as_ref()?;
        if ce.2 == "timed_out" {
            // a read round that ran out of time is where scrut stopped waiting - unless it went
            // on to wait for the process and got its status without having ended it itself
            // (reading in short rounds and looking at the process in between is a legitimate
            // way to wait; whether all output was read is C13's question)
            // (any kill counts: scrut also kills a shell that has ended when a grandchild still
            // holds the pipes)
            let killed_by_scrut = self.killed.is_some();
            if let Some((t, r, ovh)) = &self.wait {
                if !killed_by_scrut && *t >= ce.0 && r != "None" && !r.starts_with("err") && self.exit.is_some() {
                    return Some(((*t).max(ce.0), (*ovh).max(ce.1), "ok"));
                }
            }
            return Some((ce.0, ce.1, "timed_out"));
        }
        if ce.2 != "ok" {
            return None;
        }
        // scrut reads in rounds and looks at the time between them: when it then kills the
        // process - which was still alive - that is where it stopped waiting
        if let Some(k) = self.killed {
            if self.exit_seq > k.2 && k.2 > ce.5 && self.wait_first.as_ref().map(|w| w.1 != "None").unwrap_or(true) {
                return Some((k.0, ce.1, "timed_out"));
            }
        }
        match &self.wait_first {
            // the pipes reached EOF but the process ran on until the limit expired - scrut then
            // ends it; if it did not (the process ended on its own before any kill) it went on
            // waiting, and is free only when its last wait returns
            Some((t, r, ovh)) if r == "None" => {
                let ended_by_itself = self.exit.is_some() && self.killed.map(|k| k.2 > self.exit_seq).unwrap_or(true);
                match (&self.wait, ended_by_itself) {
                    (Some((tw, rw, ow)), true) if rw != "None" && *tw > *t => Some((*tw, *ow, "timed_out")),
                    _ => Some((*t, *ovh, "timed_out")),
                }
            }
            Some((t, _, ovh)) => Some((ce.0.max(*t), ce.1.max(*ovh), "ok")),
            None => {
                if self.killed.map(|k| self.exit_seq > k.2).unwrap_or(false) {
                    Some((ce.0, ce.1, "timed_out"))
                } else {
                    Some((ce.0, ce.1, "ok"))
                }
            }
        }
    }
    /// the moment the process was gone and its output pipes were at EOF (None = never)
    pub fn natural_end(&self) -> Option<u64> {
        let mut t = self.exit.as_ref()?.0;
        if self.stdout_kind == "pipe" {
            t = t.max(self.pipe_eof[1]?);
        }
        if self.stderr_kind == "pipe" {
            t = t.max(self.pipe_eof[2]?);
        }
        Some(t)
    }
}

#[derive(Clone, Debug, Default)]
pub struct Snapshot {
    pub phase: String,
    pub root: String,
    pub entries: Vec<String>,
    pub seq: u64,
}

#[derive(Clone, Debug, Default)]
pub struct Facts {
    pub procs: Vec<ProcFacts>,
    /// (nth, errno, t, seq)
    pub spawn_failed: Vec<(u32, i32, u64, u64)>,
    pub hang: Option<String>,
    pub event_cap: bool,
    pub confused: Vec<String>,
    pub drain_begin_seq: Option<u64>,
    pub alive_after_drain: Option<u32>,
    pub snapshots: Vec<Snapshot>,
    /// (seq, t, ovh) of every clock read
    pub clock_reads: Vec<(u64, u64, u64)>,
    /// (seq, t, ns)
    pub sleeps: Vec<(u64, u64, u64)>,
    pub stalls: Vec<(u64, u64, u64)>,
    pub peers: Vec<(String, String, bool)>,
    pub fault_kinds: Vec<String>,
    /// nonce -> pids whose script contains its start marker
    pub delivered: BTreeMap<String, Vec<u32>>,
    pub n_events: usize,
}

pub fn find(hay: &[u8], needle: &[u8]) -> Option<usize> {
    if needle.is_empty() || hay.len() < needle.len() {
        return None;
    }
    hay.windows(needle.len()).position(|w| w == needle)
}

pub fn nonces_in(script: &[u8], sc: &Scenario) -> Vec<String> {
    let mut out = vec![];
    let mut i = 0;
    while let Some(p) = find(&script[i..], b"@vs:") {
        let at = i + p + 4;
        if at + 13 <= script.len() && script[at + 12] == b'@' {
            if let Ok(n) = std::str::from_utf8(&script[at..at + 12]) {
                if sc.sim.programs.contains_key(n) {
                    out.push(n.to_string());
                }
            }
        }
        i = at;
    }
    out
}

pub fn extract(sc: &Scenario, log: &[LogEntry]) -> Facts {
    let mut f = Facts::default();
    f.n_events = log.len();
    let ensure = |f: &mut Facts, pid: u32| {
        while f.procs.len() <= pid as usize {
            let p = f.procs.len() as u32;
            f.procs.push(ProcFacts {
                pid: p,
                ..Default::default()
            });
        }
    };
    for e in log {
        match &e.ev {
            LogEv::Spawn {
                pid,
                nth,
                argv0,
                cwd,
                env,
                stdin,
                stdout,
                stderr,
                detached,
                cwd_exists,
                tmpdir_exists,
            } => {
                ensure(&mut f, *pid);
                let p = &mut f.procs[*pid as usize];
                p.nth = *nth;
                p.spawn_t = e.t;
                p.spawn_seq = e.seq;
                p.spawn_ovh = e.ovh;
                p.argv0 = argv0.clone();
                p.cwd = cwd.clone();
                p.env = env.clone();
                p.stdin_kind = stdin.clone();
                p.stdout_kind = stdout.clone();
                p.stderr_kind = stderr.clone();
                p.detached = *detached;
                p.cwd_exists = *cwd_exists;
                p.tmpdir_exists = *tmpdir_exists;
            }
            LogEv::SpawnFailed { nth, errno } => f.spawn_failed.push((*nth, *errno, e.t, e.seq)),
            LogEv::Script { pid, data } => {
                ensure(&mut f, *pid);
                let ns = nonces_in(&data.0, sc);
                for n in &ns {
                    f.delivered.entry(n.clone()).or_default().push(*pid);
                }
                let p = &mut f.procs[*pid as usize];
                // single-script mode: the environment travels as `export K=V` lines at the head
                // of the script (what the shell is handed, whether or not it got to run them)
                if find(&data.0, b"__SCRUT_TEMP_STATE_PATH=").is_none() {
                    p.exports.clear();
                    for line in data.0.split(|c| *c == b'\n') {
                        if find(line, b"@vs:").is_some() {
                            break;
                        }
                        if let Some(rest) = line.strip_prefix(b"export ") {
                            if let Some(kv) = scrut::verif_sim::world::parse_export(rest) {
                                p.exports.push(kv);
                            }
                        }
                    }
                }
                p.script_nonces = ns;
                p.script = Some(data.0.clone());
                p.script_seq = e.seq;
            }
            LogEv::Template { pid, state_dir, persist } => {
                ensure(&mut f, *pid);
                f.procs[*pid as usize].template = Some((state_dir.clone(), *persist));
            }
            LogEv::Export { .. } => {}
            LogEv::StateRead { pid, dir, blob } => {
                ensure(&mut f, *pid);
                f.procs[*pid as usize].state_read = Some((dir.clone(), blob.clone()));
            }
            LogEv::StateWrite { pid, dir, blob } => {
                ensure(&mut f, *pid);
                f.procs[*pid as usize].state_write = Some((dir.clone(), blob.clone(), e.seq));
            }
            LogEv::Cmd { pid, nonce, complete } => {
                ensure(&mut f, *pid);
                f.procs[*pid as usize].cmds.push(CmdFacts {
                    nonce: nonce.clone(),
                    start_t: e.t,
                    start_seq: e.seq,
                    complete: *complete,
                    ..Default::default()
                });
            }
            LogEv::CmdEnd {
                pid,
                nonce,
                status,
                wrote1,
                wrote2,
                blocked_ns,
            } => {
                ensure(&mut f, *pid);
                if let Some(c) = f.procs[*pid as usize]
                    .cmds
                    .iter_mut()
                    .rev()
                    .find(|c| &c.nonce == nonce && c.end_t.is_none())
                {
                    c.end_t = Some(e.t);
                    c.status = *status;
                    c.wrote1 = *wrote1;
                    c.wrote2 = *wrote2;
                    c.blocked_ns = *blocked_ns;
                }
            }
            LogEv::Touch { pid, path } => {
                ensure(&mut f, *pid);
                f.procs[*pid as usize].touches.push((e.t, path.clone()));
            }
            LogEv::Exit { pid, status, trap_ran } => {
                ensure(&mut f, *pid);
                f.procs[*pid as usize].exit = Some((e.t, status.clone(), *trap_ran));
                f.procs[*pid as usize].exit_seq = e.seq;
            }
            LogEv::PipeEof { pid, fd } => {
                ensure(&mut f, *pid);
                if (*fd as usize) < 3 {
                    f.procs[*pid as usize].pipe_eof[*fd as usize] = Some(e.t);
                }
            }
            LogEv::BgEnd { .. } => {}
            LogEv::CommBegin { pid, limit_ns } => {
                ensure(&mut f, *pid);
                // (scrut may read in several rounds: the first one starts the clock)
                if f.procs[*pid as usize].comm_begin.is_none() {
                    f.procs[*pid as usize].comm_begin = Some((e.t, e.ovh, *limit_ns));
                }
            }
            LogEv::CommEnd {
                pid,
                result,
                n_out,
                n_err,
                polls: _,
            } => {
                ensure(&mut f, *pid);
                f.procs[*pid as usize].comm_end = Some((e.t, e.ovh, result.clone(), *n_out, *n_err, e.seq));
            }
            LogEv::Wait { pid, result } => {
                ensure(&mut f, *pid);
                f.procs[*pid as usize].wait = Some((e.t, result.clone(), e.ovh));
                if f.procs[*pid as usize].wait_first.is_none() {
                    f.procs[*pid as usize].wait_first = Some((e.t, result.clone(), e.ovh));
                }
            }
            LogEv::Kill { pid, sig } => {
                ensure(&mut f, *pid);
                f.procs[*pid as usize].killed = Some((e.t, *sig, e.seq));
            }
            LogEv::ParentClose { pid } => {
                ensure(&mut f, *pid);
                f.procs[*pid as usize].parent_close = Some((e.t, e.seq));
            }
            LogEv::Sleep { ns } => f.sleeps.push((e.seq, e.t, *ns)),
            LogEv::ClockRead => f.clock_reads.push((e.seq, e.t, e.ovh)),
            LogEv::Stall { ns } => f.stalls.push((e.seq, e.t, *ns)),
            LogEv::Fault { kind, pid } => {
                f.fault_kinds.push(kind.clone());
                if let Some(pid) = pid {
                    ensure(&mut f, *pid);
                    f.procs[*pid as usize].faults.push(kind.clone());
                }
            }
            LogEv::Peer { action, path, ok } => f.peers.push((action.clone(), path.clone(), *ok)),
            LogEv::Confused { pid, reason } => f.confused.push(format!("pid {}: {}", pid, reason)),
            LogEv::HangForever { site } => f.hang = Some(site.clone()),
            LogEv::EventCap => f.event_cap = true,
            LogEv::Turn { .. } => {}
            LogEv::DrainBegin => f.drain_begin_seq = Some(e.seq),
            LogEv::DrainEnd { alive } => f.alive_after_drain = Some(*alive),
            LogEv::FsSnapshot { phase, root, entries } => f.snapshots.push(Snapshot {
                phase: phase.clone(),
                root: root.clone(),
                entries: entries.clone(),
                seq: e.seq,
            }),
        }
    }
    f
}
