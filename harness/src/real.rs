//! Tier R: real bash through the pass-through seam.
//!
//! * C12 (b): seeded histories of state-changing snippets followed by probes, run through the
//!   real `StatefulExecutor` (one bash process per snippet, state carried through the state
//!   file) and, as the reference, through ONE bash process fed the same snippets. Lock-step
//!   comparison of every probe's stdout and status.
//! * C13: stub conformance - a fixed sample of simulated scenarios is also executed by real
//!   bash (`printf` of the same bytes); the executor's Outputs must agree with the simulated
//!   ones. A disagreement is a harness error (the stub misrepresents reality), not a violation.
//!
//! Execution here is strictly sequential (scrut blocks while bash runs), so there is no
//! schedule to control; determinism is nevertheless checked by running every failing history twice.

use std::collections::BTreeMap;
use std::collections::BTreeSet;
use std::io::Write;
use std::path::Path;
use std::path::PathBuf;
use std::process::Command;
use std::process::Stdio;
use std::sync::atomic::AtomicUsize;
use std::sync::atomic::Ordering;
use std::sync::Arc;
use std::sync::Mutex;

use scrut::config::DocumentConfig;
use scrut::config::TestCaseConfig;
use scrut::executors::bash_runner::BashRunner;
use scrut::executors::bash_script_executor::BashScriptExecutor;
use scrut::executors::context::ContextBuilder;
use scrut::executors::executor::Executor;
use scrut::executors::stateful_executor::StatefulExecutor;
use scrut::output::ExitStatus;
use scrut::testcase::TestCase;
use scrut::verif_sim::scenario::*;
use scrut::verif_sim::world::Rng;
use serde::Deserialize;
use serde::Serialize;

use crate::known::KnownFile;
use crate::obs::*;
use crate::scn::*;

#[derive(Default)]
pub struct RealReport {
    pub runs: u64,
    pub signatures: Vec<String>,
    pub samples: Vec<serde_json::Value>,
    pub harness_errors: Vec<String>,
    pub known_hits: BTreeMap<String, (u64, String)>,
    pub violation_replays: Vec<String>,
    pub coverage: serde_json::Value,
}

#[derive(Clone, Debug, PartialEq, Eq, Serialize, Deserialize)]
pub struct Snippet {
    /// `environment:` of the test case's configuration
    #[serde(default)]
    pub env: BTreeMap<String, String>,
    pub code: String,
    /// "normal" | "exit:N" | "detached"
    pub end: String,
    /// what this snippet is about (for signatures and known-finding predicates)
    pub tag: String,
}

#[derive(Clone, Debug, PartialEq, Eq, Serialize, Deserialize)]
pub struct History {
    pub real_history: bool,
    pub id: String,
    pub snippets: Vec<Snippet>,
}

pub const INHERITED: &str = "VS_INHERITED";

fn scratch_root() -> PathBuf {
    let p = std::env::var("VSIM_SCRATCH").unwrap_or_else(|_| "/verif/scratch".into());
    let p = PathBuf::from(p);
    let _ = std::fs::create_dir_all(&p);
    p
}

// ------------------------------------------------------------------ grammar

struct HG {
    rng: Rng,
}

impl HG {
    fn below(&mut self, n: u64) -> u64 {
        self.rng.below(n)
    }
    fn pick<'a, T>(&mut self, xs: &'a [T]) -> &'a T {
        &xs[self.rng.below(xs.len() as u64) as usize]
    }
    fn value(&mut self) -> String {
        let v: [&str; 12] = [
            "plain",
            "'two words'",
            "'  lead and trail  '",
            "\"dq \\\"inner\\\" q\"",
            "'sq '\\''inner'\\'' q'",
            "'dollar $HOME $(echo no) `no`'",
            "'back\\slash \\\\ two'",
            "$'line1\\nline2\\n'",
            "$'tab\\there'",
            "'ünïcödé ☃ 漢字'",
            "''",
            "'star * ? [a-z] {a,b}'",
        ];
        if self.below(25) == 0 {
            // long value
            let n = *self.pick(&[1000usize, 20_000, 100_000]);
            return format!("\"$(printf 'x%.0s' $(seq 1 {}))\"", n);
        }
        self.pick(&v).to_string()
    }
}

const PROBE_VARS: &[&str] = &[
    "VE1", "VE2", "VS1", "vs_lower", "VA1", "VH1", "VI1", INHERITED, "SUDO_UID", "VS_CFG", "UIDX", "PPID2", "x1", "_under", "BASH_MINE", "LINENO_COPY", "SCRUT_TESTX", "VL1", "VU1",
    "VEMPTY", "CDPATH", "GREP_OPTIONS",
];

fn probe_all() -> String {
    let mut s = String::new();
    for v in PROBE_VARS {
        s.push_str(&format!("declare -p {v} 2>/dev/null || echo {v}:unset\n"));
    }
    s.push_str("printenv VE1 || echo VE1:not-in-env\n");
    s.push_str("printenv VS_CFG || echo VS_CFG:not-in-env\n");
    s.push_str("printenv CDPATH; echo \"CDPATH-in-env:$?\"\n");
    s.push_str(&format!("printenv {INHERITED} || echo {INHERITED}:not-in-env\n"));
    s.push_str("printenv SUDO_UID || echo SUDO_UID:not-in-env\n");
    s.push_str("declare -f f1 || echo f1:undefined\n");
    s.push_str("declare -f f_heredoc || echo f_heredoc:undefined\n");
    s.push_str("declare -f fx || echo fx:undefined\n");
    s.push_str("declare -F | grep -c -E ' (f1|f2|f_heredoc)$'\n");
    s.push_str("alias a1 2>/dev/null || echo a1:noalias\n");
    s.push_str("alias a2 2>/dev/null || echo a2:noalias\n");
    s.push_str("set -o | grep -E '^(pipefail|nounset|noglob|noclobber|allexport|xtrace|verbose) '\n");
    s.push_str("shopt -p nullglob extglob dotglob nocasematch\n");
    s.push_str("pwd\n");
    s.push_str("dirs -l -p\n");
    // the NAMES of all variables, functions and aliases: nothing may appear that a single
    // session would not have (scrut's own `__SCRUT_...` names exist in its shells only and are
    // documented as never carried; SCRUT_TEST is set by scrut for every test case; an empty
    // BASH_COMPAT comes back from the state file - bash lists the variable once it was assigned -
    // and changes nothing)
    s.push_str("compgen -v | grep -v -E '^(__SCRUT_|SCRUT_TEST$|BASH_COMPAT$|BASH_EXECUTION_STRING$|_$|PIPESTATUS$)' | sort | tr '\\n' ' '; echo\n");
    s.push_str("compgen -A function | grep -v '^__scrut_' | sort | tr '\\n' ' '; echo\n");
    s.push_str("compgen -a | sort | tr '\\n' ' '; echo\n");
    s
}

fn gen_history(seed: u64, idx: usize, steer_around_known: bool) -> History {
    let mut g = HG {
        rng: Rng::new(seed ^ 0x12b ^ ((idx as u64) << 18)),
    };
    let n = 2 + g.below(6) as usize;
    let mut snippets = vec![];
    let mut cfg_touched = false;
    for k in 0..n {
        let mut env: BTreeMap<String, String> = BTreeMap::new();
        let (tag, code): (String, String) = match g.below(50) {
            49 => {
                if steer_around_known {
                    ("trap-term".into(), "trap 'true' TERM".into())
                } else {
                    ("trap-exit".into(), format!("trap 'VS_TRAPPED={}' EXIT", k))
                }
            }
            0 => ("export-define".into(), format!("export VE1={}", g.value())),
            1 => ("export-modify".into(), "export VE1=\"${VE1:-none} more\"".into()),
            2 => ("export-unset".into(), "unset VE1".into()),
            3 => ("export-attr-only".into(), format!("VE2={}; export VE2", g.value())),
            4 => ("var-define".into(), format!("VS1={}", g.value())),
            5 => ("var-modify".into(), "VS1=\"<${VS1:-}>\"".into()),
            6 => ("var-unset".into(), "unset VS1".into()),
            7 => ("var-lower".into(), format!("vs_lower={}", g.value())),
            8 => ("array-define".into(), format!("VA1=(one {} 'three 3')", g.value())),
            9 => ("array-modify".into(), "VA1+=(appended); VA1[1]='replaced one'".into()),
            10 => ("array-unset-elem".into(), "unset 'VA1[0]'".into()),
            11 => ("assoc-define".into(), format!("declare -A VH1=([k1]=v1 ['k 2']={})", g.value())),
            12 => ("assoc-modify".into(), "if declare -p VH1 >/dev/null 2>&1; then VH1[new]='added'; unset 'VH1[k1]'; fi".into()),
            13 => ("int-define".into(), "declare -i VI1=5".into()),
            14 => ("int-modify".into(), "VI1+=3".into()),
            15 => ("func-define".into(), format!("f1() {{ echo \"f1:$1:{}\"; local x=1; return 3; }}", k)),
            16 => ("func-unset".into(), "unset -f f1".into()),
            17 => ("func-second".into(), "function f2 { printf '%s\\n' \"$@\"; }".into()),
            18 => ("alias-define".into(), format!("alias a1='echo aliased{}'", k)),
            19 => ("alias-unset".into(), "unalias a1 2>/dev/null".into()),
            20 => ("alias-second".into(), "alias a2=\"printf '%s|' one two\"".into()),
            21 => (
                "set-o".into(),
                format!("set {}o {}", g.pick(&["-", "+"]), g.pick(&["pipefail", "nounset", "noglob", "noclobber"])),
            ),
            22 => (
                "shopt".into(),
                format!("shopt -{} {}", g.pick(&["s", "u"]), g.pick(&["nullglob", "extglob", "dotglob", "nocasematch"])),
            ),
            23 => ("cd".into(), format!("cd {} 2>/dev/null", g.pick(&["'d 1'", "d2", "..", "d2/inner", "\"$VS_BASE\""]))),
            24 => ("pushd".into(), format!("pushd {} >/dev/null 2>&1", g.pick(&["'d 1'", "d2", "d2/inner"]))),
            25 => ("popd".into(), "popd >/dev/null 2>&1".into()),
            26 => {
                if steer_around_known {
                    ("inherited-modify".into(), format!("{INHERITED}=changed-{}", k))
                } else {
                    ("inherited-unset".into(), format!("unset {INHERITED}"))
                }
            }
            27 => ("inherited-modify".into(), format!("export {INHERITED}=changed-{}", k)),
            28 => {
                if steer_around_known {
                    ("func-define".into(), "f1() { echo again; }".into())
                } else {
                    (
                        "func-heredoc-declare-r".into(),
                        "f_heredoc() { cat <<EOT\ndeclare -r looks_readonly=1\nplain line\nEOT\n}".into(),
                    )
                }
            }
            // (a variable given by configuration that an earlier test case already owns is
            // outside the property: only the first VS_CFG-related snippet may configure it)
            29 if !cfg_touched => {
                cfg_touched = true;
                env.insert("VS_CFG".into(), format!("from-config-{}", k));
                ("cfg-env-define".into(), "true".into())
            }
            30 => {
                cfg_touched = true;
                ("cfg-env-unset".into(), "unset VS_CFG".into())
            }
            31 => {
                cfg_touched = true;
                ("cfg-env-modify".into(), "VS_CFG=\"${VS_CFG:-none}+\"".into())
            }
            32 => {
                // names that merely resemble the ones scrut excludes from the carried state
                let name = *g.pick(&["UIDX", "PPID2", "x1", "_under", "BASH_MINE", "LINENO_COPY", "SCRUT_TESTX"]);
                let exp = if g.below(2) == 0 { "export " } else { "" };
                ("odd-name-define".into(), format!("{}{}={}", exp, name, g.value()))
            }
            33 => ("value-looks-like-declare".into(), format!("VS1={}", g.pick(&["'declare -r fake=1'", "$'one\\ndeclare -r fake=2'", "'-r'", "'declare -x SCRUT_TEST=zzz'"]))),
            34 => ("alias-of-alias".into(), "alias a1='echo inner'; alias a2='a1 outer'".into()),
            35 => ("dirstack-deep".into(), "pushd 'd 1' >/dev/null 2>&1; pushd ../d2 >/dev/null 2>&1; pushd inner >/dev/null 2>&1".into()),
            36 => ("func-constructs".into(), "f1() { local -a arr=(1 \"two words\"); case \"$1\" in a|b) echo ab;; *) echo \"other ${arr[1]}\";; esac; cat <<EOT\n  heredoc $1 line\nEOT\n}".into()),
            47 => ("inherited-empty".into(), format!("{}{}=", g.pick(&["", "export "]), INHERITED)),
            48 => {
                if steer_around_known {
                    ("export-n".into(), "export -n VE1 2>/dev/null".into())
                } else {
                    ("inherited-export-n".into(), format!("export -n {}", INHERITED))
                }
            }
            40 => ("export-n".into(), "export -n VE1 2>/dev/null; export -n VE2 2>/dev/null".into()),
            41 => ("attr-lower-upper".into(), "declare -l VL1=MiXed; declare -u VU1=MiXed".into()),
            42 => ("attr-modify".into(), "VL1=SHOUT-${VL1:-}; VU1=whisper".into()),
            43 => ("export-empty".into(), "export VEMPTY=".into()),
            44 => ("cd-dash".into(), "cd - >/dev/null 2>&1".into()),
            45 => ("cd-quote-dir".into(), format!("cd {} 2>/dev/null", g.pick(&["\"$VS_BASE/d'q\"", "\"$VS_BASE/d 1\"", "\"$VS_BASE/d2/in ner\""]))),
            46 => ("pushd-quote-dir".into(), "pushd \"$VS_BASE/d'q\" >/dev/null 2>&1; pushd \"$VS_BASE/d2/in ner\" >/dev/null 2>&1".into()),
            37 => (
                "func-needs-extglob".into(),
                "shopt -s extglob\nfx() { case \"$1\" in @(yes|y)) echo Y;; !(no|n)) echo other;; esac; }".into(),
            ),
            _ => ("use".into(), "f1 arg 2>/dev/null; fx y 2>/dev/null; a1 2>/dev/null; a2 2>/dev/null; echo \"${VS1:-} ${VE1:-} ${VA1[*]:-}\"".into()),
        };
        let end = match g.below(12) {
            0 => format!("exit:{}", g.pick(&[0, 1, 3, 42])),
            1 => "fail".to_string(),
            2 if k + 1 < n => "detached".to_string(),
            _ => "normal".to_string(),
        };
        snippets.push(Snippet { env, code, end, tag });
    }
    History {
        real_history: true,
        id: format!("h{}", idx),
        snippets,
    }
}

/// each state class x define / modify / unset, followed by a probe
fn systematic_histories() -> Vec<History> {
    let classes: Vec<(&str, &str, &str, &str)> = vec![
        ("export", "export VE1='exported value'", "export VE1=\"$VE1 changed\"", "unset VE1"),
        ("var", "VS1='shell $var \\ value'", "VS1=\"[$VS1]\"", "unset VS1"),
        ("array", "VA1=(a 'b c' d)", "VA1+=(e); VA1[0]=z", "unset VA1"),
        ("assoc", "declare -A VH1=([x]=1 ['y z']='2 3')", "VH1[w]=4; unset 'VH1[x]'", "unset VH1"),
        ("int", "declare -i VI1=7", "VI1+=5", "unset VI1"),
        ("func", "f1() { echo one; }", "f1() { echo two; return 2; }", "unset -f f1"),
        ("alias", "alias a1='echo first'", "alias a1='echo second'", "unalias a1"),
        ("set-o", "set -o pipefail; set -o noglob", "set +o noglob; set -o nounset", "set +o pipefail; set +o nounset"),
        ("shopt", "shopt -s nullglob extglob", "shopt -u nullglob; shopt -s dotglob", "shopt -u extglob dotglob"),
        ("cd", "cd 'd 1'", "cd ../d2/inner", "cd \"$VS_BASE\""),
        ("dirstack", "pushd 'd 1' >/dev/null; pushd ../d2 >/dev/null", "pushd inner >/dev/null", "popd >/dev/null; popd >/dev/null"),
        ("inherited-modify", &"export VS_INHERITED=changed", "VS_INHERITED=\"$VS_INHERITED again\"", "true"),
        (
            "func-extglob",
            "shopt -s extglob\nfx() { case \"$1\" in @(yes|y)) echo Y;; !(no|n)) echo other;; esac; }",
            "fx yes; VS1=after-fx; cd d2",
            "unset -f fx",
        ),
        (
            "func-extglob-then-off",
            "shopt -s extglob\nfx() { case \"$1\" in @(yes|y)) echo Y;; !(no|n)) echo other;; esac; }; VS1=kept",
            "shopt -u extglob",
            "fx y; cd d2",
        ),
        ("inherited-empty", "VS_INHERITED=", "true", "VS_INHERITED=again"),
        ("inherited-export-n", "export -n VS_INHERITED", "VS_INHERITED=still-not-exported", "export VS_INHERITED"),
        // (the tracing options carry like any other; what they print goes to stderr, which this
        // lane does not compare)
        ("xtrace", "set -x", "VS1=traced", "set +x; set -v"),
        // (finding AB: `set -a` must not turn the variables that are restored into exported ones)
        ("allexport", "VS1=before-allexport; VA1=(x y)", "set -a", "VE2=new-under-allexport; set +a; VS1=\"$VS1 changed\""),
        // (finding W: an alias whose expansion starts with its own name, used in a function body,
        // must not be expanded once more each time the state is read back)
        ("alias-self-in-func", "alias a1='a1 pre'", "f1() { a1 x; }", "alias a2='echo other'"),
        // (finding T: the user's EXIT trap replaces the one that writes the state)
        ("trap-exit", "export VE1=one; trap 'true' EXIT", "VE1=\"$VE1 two\"; VS1=after-trap", "trap - EXIT"),
        // (seed 103 of the sweep: unset, then set again as a plain shell variable)
        ("inherited-unset-then-plain", "unset VS_INHERITED", "VS_INHERITED=", "VS_INHERITED=plain-again"),
        ("inherited-unset-then-export", "unset VS_INHERITED", "true", "export VS_INHERITED=back"),
        // (the test command points TMPDIR - where temporary files of helpers would go - at nothing:
        // what it changed besides is carried all the same)
        ("tmpdir-nowhere", "export VE1=kept; VS1=one; export TMPDIR=/nonexistent/dir/for/tmp", "VS1=\"$VS1 two\"; f1() { echo f; }", "export TMPDIR=/dev/null; VS1=three"),
        // (an inherited variable whose name contains the name of a never-carried one)
        ("inherited-lookalike-unset", "unset SUDO_UID", "true", "SUDO_UID=back"),
        ("inherited-lookalike-export-n", "export -n SUDO_UID", "VS1=$SUDO_UID", "export SUDO_UID"),
        ("export-n", "export VE1=one VE2=two", "export -n VE1", "export VE1; export -n VE2"),
        ("attr-case", "declare -l VL1=MiXed; declare -u VU1=MiXed", "VL1=AGAIN; VU1=again", "unset VL1; declare +u VU1; VU1=Plain"),
        ("export-empty", "export VEMPTY=", "VEMPTY=filled", "export VEMPTY="),
        ("cd-dash", "cd 'd 1'; cd ../d2", "cd -", "cd - ; cd \"$VS_BASE/d'q\""),
        ("dirstack-quotes", "pushd \"$VS_BASE/d'q\" >/dev/null", "pushd \"$VS_BASE/d2/in ner\" >/dev/null; pushd \"$VS_BASE/d 1\" >/dev/null", "popd >/dev/null"),
        ("dirstack-two", "pushd d2 >/dev/null", "true", "popd >/dev/null"),
        ("nounset-with-unset", "set -o nounset; VS1=x", "unset VS1; VA1=(a b)", "set +o nounset"),
        ("shopt-then-var", "shopt -s nullglob dotglob; VS1=one", "shopt -u nullglob; VS1=two; alias a1='echo x'", "shopt -u dotglob"),
    ];
    let mut out = vec![];
    for (name, define, modify, unset) in classes {
        // (exit codes above 128 are exit codes like any other: what the test case changed is carried)
        for ends in [["normal", "normal", "normal"], ["exit:3", "normal", "fail"], ["normal", "exit:0", "normal"], ["exit:255", "exit:143", "exit:129"]] {
            let mk = |code: &str, end: &str, tag: &str| Snippet {
                env: BTreeMap::new(),
                code: code.to_string(),
                end: end.to_string(),
                tag: format!("{}-{}", name, tag),
            };
            out.push(History {
                real_history: true,
                id: format!("sys-{}-{}", name, ends.join("_")),
                snippets: vec![mk(define, ends[0], "define"), mk(modify, ends[1], "modify"), mk(unset, ends[2], "unset")],
            });
            // with a detached snippet in between that changes the same state: it must leave nothing
            out.push(History {
                real_history: true,
                id: format!("sys-{}-detached-{}", name, ends.join("_")),
                snippets: vec![
                    mk(define, ends[0], "define"),
                    Snippet {
                        env: BTreeMap::new(),
                        code: format!("{}; VS1=from-detached; alias a2='echo detached'; cd /", unset),
                        end: "detached".into(),
                        tag: format!("{}-detached", name),
                    },
                    mk(modify, ends[1], "modify"),
                ],
            });
        }
    }
    // a variable given through a test case's `environment:` configuration
    for ends in [["normal", "normal", "normal", "normal"], ["normal", "exit:0", "normal", "fail"]] {
        let mk = |env: Option<&str>, code: &str, end: &str, tag: &str| Snippet {
            env: env.map(|v| [("VS_CFG".to_string(), v.to_string())].into_iter().collect()).unwrap_or_default(),
            code: code.to_string(),
            end: end.to_string(),
            tag: tag.to_string(),
        };
        out.push(History {
            real_history: true,
            id: format!("sys-cfg-env-{}", ends.join("_")),
            snippets: vec![
                mk(Some("from config"), "true", ends[0], "cfg-env-define"),
                mk(None, "VS_CFG=\"$VS_CFG changed\"", ends[1], "cfg-env-modify"),
                mk(None, "unset VS_CFG", ends[2], "cfg-env-unset"),
                mk(None, "true", ends[3], "use"),
            ],
        });
    }
    // more than ten test cases: what the tenth and later ones change must carry too (two-digit
    // indices), and a test case that empties the temporary directory - where scrut keeps the
    // state - must not cut the chain
    let plain = |code: &str, tag: &str| Snippet { env: BTreeMap::new(), code: code.to_string(), end: "normal".into(), tag: tag.to_string() };
    let mut long = vec![];
    for k in 0..10 {
        long.push(plain(&format!("VS1=step-{}; VA1+=(e{})", k, k), "var-modify"));
    }
    long.push(plain("VS1=ten; f1() { echo ten; }; cd d2", "late-define"));
    long.push(plain("VS1=\"$VS1+eleven\"; alias a1='echo eleven'; export VE1=late", "late-modify"));
    long.push(plain("unset -f f1; cd inner", "late-unset"));
    long.push(plain("true", "use"));
    out.push(History { real_history: true, id: "sys-long-14".into(), snippets: long.clone() });
    // a directory stack of twelve entries
    let deep: String = (0..6).map(|_| "pushd d2 >/dev/null; pushd inner >/dev/null; cd \"$VS_BASE\"; ").collect();
    out.push(History {
        real_history: true,
        id: "sys-dirstack-13".into(),
        snippets: vec![plain(&deep, "dirstack-deep"), plain("popd >/dev/null; pushd 'd 1' >/dev/null", "dirstack-modify"), plain("popd >/dev/null; popd >/dev/null", "popd"), plain("true", "use")],
    });
    long.truncate(12);
    out.push(History { real_history: true, id: "sys-long-12b".into(), snippets: long });
    // a detached test case (or a job left behind) tidies up "$TMPDIR"/* while scrut waits before
    // the next test case: the state at rest between two test cases must be out of its reach
    for (i, clean) in ["rm -rf \"$VS_TMP\"/*", "find \"$VS_TMP\" -mindepth 1 -maxdepth 1 -name '[!.]*' -exec rm -rf {} +"].iter().enumerate() {
        out.push(History {
            real_history: true,
            id: format!("sys-cleaner-at-rest-{}", i),
            snippets: vec![
                plain("export VE1=before; VS1='kept value'; VA1=(a 'b c'); f1() { echo one; }; alias a1='echo al'; shopt -s nullglob; cd 'd 1'", "export-define"),
                Snippet { env: BTreeMap::new(), code: format!("touch \"$VS_TMP/visible-file\"; mkdir -p \"$VS_TMP/visible-dir\"; {}", clean), end: "detached".into(), tag: "cleaner-detached".into() },
                plain("VE1=\"$VE1 after\"", "wait-1200"),
                plain("true", "use"),
            ],
        });
    }
    // (the third: the temporary directory is GONE when the shell ends, and a variable changed with it)
    for (i, wipe) in ["find \"$VS_TMP\" -mindepth 1 -delete 2>/dev/null; true", "rm -rf \"$VS_TMP\"; mkdir -p \"$VS_TMP\"", "VS1=changed-while-gone; rm -rf \"$VS_TMP\""].iter().enumerate() {
        out.push(History {
            real_history: true,
            id: format!("sys-wipe-tmp-{}{}", i, if i == 0 { "" } else { "x" }),
            snippets: vec![
                plain("export VE1=before; VS1=kept; f1() { echo one; }", "export-define"),
                plain(wipe, "wipe-tmp"),
                plain("VE1=\"$VE1 after\"; cd d2", "export-modify"),
                plain("true", "use"),
            ],
        });
    }
    out
}

// ------------------------------------------------------------------ execution

fn snippet_source(s: &Snippet, for_reference: bool) -> String {
    // state change, then the probes; the probes' output is what gets compared
    let mut code = String::new();
    if for_reference {
        // in a single session the test case's `environment:` amounts to exporting it first
        for (k, v) in &s.env {
            code.push_str(&format!("export {}='{}'\n", k, v.replace('\'', "'\\''")));
        }
    }
    code.push_str(&s.code);
    code.push('\n');
    code.push_str(&probe_all());
    match s.end.as_str() {
        "fail" => code.push_str("false\n"),
        e if e.starts_with("exit:") => {
            let n = &e[5..];
            if for_reference {
                code.push_str(&format!("(exit {})\n", n));
            } else {
                code.push_str(&format!("exit {}\n", n));
            }
        }
        _ => code.push_str("true\n"),
    }
    code
}

struct Layout {
    root: tempfile::TempDir,
    work: PathBuf,
    tmp: PathBuf,
}

fn layout() -> std::io::Result<Layout> {
    layout_with(false)
}

/// `spaced`: the temporary directory (in which scrut keeps the state file) has a name with a
/// blank and a quote in it
fn layout_with(spaced: bool) -> std::io::Result<Layout> {
    layout_styled(if spaced { 1 } else { 0 })
}

/// style 2: a name that every shell would expand differently (`$$`, `$RANDOM`) if it were
/// ever expanded
fn layout_styled(style: u32) -> std::io::Result<Layout> {
    let root = tempfile::Builder::new().prefix("vr.").tempdir_in(scratch_root())?;
    let work = root.path().join("base");
    let tmp = root.path().join(match style {
        1 => "t m'p",
        2 => "job.$$.$RANDOM",
        _ => "tmp",
    });
    std::fs::create_dir_all(work.join("d 1"))?;
    std::fs::create_dir_all(work.join("d2/inner"))?;
    std::fs::create_dir_all(work.join("d2/in ner"))?;
    std::fs::create_dir_all(work.join("d'q"))?;
    std::fs::create_dir_all(&tmp)?;
    Ok(Layout { root, work, tmp })
}

fn normalise(out: &[u8], base: &Path) -> String {
    let s = String::from_utf8_lossy(out).replace(&*base.to_string_lossy(), "$BASE");
    match base.parent() {
        Some(root) => s.replace(&*root.to_string_lossy(), "$ROOT"),
        None => s,
    }
}

/// (stdout, status) per non-detached snippet
type Trace = Vec<(String, String)>;

fn run_through_scrut(h: &History) -> Result<Trace, String> {
    // (a function of the history, so that a replay does the same)
    let style = h.id.bytes().map(|b| b as u32).sum::<u32>() % 3;
    let l = layout_styled(style).map_err(|e| e.to_string())?;
    let mut env: BTreeMap<String, String> = BTreeMap::new();
    env.insert("VS_BASE".into(), l.work.to_string_lossy().into_owned());
    env.insert("VS_TMP".into(), l.tmp.to_string_lossy().into_owned());
    env.insert("HOME".into(), "/nonexistent-home".into());
    env.insert("CDPATH".into(), "".into());
    env.insert("GREP_OPTIONS".into(), "".into());
    let testcases: Vec<TestCase> = h
        .snippets
        .iter()
        .enumerate()
        .map(|(i, s)| {
            let mut config = TestCaseConfig::default_markdown();
            config.environment = env.clone();
            for (k, v) in &s.env {
                config.environment.insert(k.clone(), v.clone());
            }
            if s.end == "detached" {
                config.detached = Some(true);
            }
            // (a snippet tagged `wait-<ms>` waits that long before it starts - the time in which
            // something else may touch what lies at rest between two test cases)
            if let Some(ms) = s.tag.strip_prefix("wait-").and_then(|m| m.parse::<u64>().ok()) {
                config.wait = Some(scrut::config::TestCaseWait { timeout: std::time::Duration::from_millis(ms), path: None });
            }
            TestCase {
                title: format!("s{}", i),
                shell_expression: snippet_source(s, false),
                expectations: vec![],
                exit_code: None,
                line_number: i + 1,
                config,
            }
        })
        .collect();
    let refs: Vec<&TestCase> = testcases.iter().collect();
    let context = ContextBuilder::default()
        .work_directory(l.work.clone())
        .temp_directory(l.tmp.clone())
        .file(PathBuf::from("history.md"))
        .config(DocumentConfig::default_markdown())
        .build()
        .map_err(|e| e.to_string())?;
    let executor = StatefulExecutor::new(BashRunner::stateful_generator(Path::new("/bin/bash")));
    let outputs = executor.execute_all(&refs, &context).map_err(|e| format!("execute_all: {}", e))?;
    let mut trace = vec![];
    for (s, o) in h.snippets.iter().zip(outputs.iter()) {
        if s.end == "detached" {
            continue;
        }
        let stdout: &[u8] = (&o.stdout).into();
        let status = match &o.exit_code {
            ExitStatus::Code(c) => c.to_string(),
            other => format!("{}", other),
        };
        trace.push((normalise(stdout, &l.work), status));
    }
    // give detached shells a moment to end before the directories go away
    drop(l.root);
    Ok(trace)
}

fn run_reference(h: &History) -> Result<Trace, String> {
    let l = layout().map_err(|e| e.to_string())?;
    let mut script = String::new();
    script.push_str("shopt -s expand_aliases\n");
    let mut n = 0;
    for s in &h.snippets {
        if s.end == "detached" {
            continue;
        }
        script.push_str(&snippet_source(s, true));
        script.push_str(&format!("echo \"@@VS-MARK {} $?@@\"\n", n));
        n += 1;
    }
    let mut child = Command::new("/bin/bash")
        .current_dir(&l.work)
        .env("VS_BASE", &l.work)
        .env("VS_TMP", &l.tmp)
        .env("HOME", "/nonexistent-home")
        .env("CDPATH", "")
        .env("GREP_OPTIONS", "")
        .env("SHELL", "/bin/bash")
        .stdin(Stdio::piped())
        .stdout(Stdio::piped())
        .stderr(Stdio::null())
        .spawn()
        .map_err(|e| e.to_string())?;
    {
        let mut si = child.stdin.take().unwrap();
        let sc = script.clone();
        std::thread::spawn(move || {
            let _ = si.write_all(sc.as_bytes());
        });
    }
    let out = child.wait_with_output().map_err(|e| e.to_string())?;
    let text = normalise(&out.stdout, &l.work);
    let mut trace = vec![];
    let mut cur = String::new();
    for line in text.split_inclusive('\n') {
        if let Some(rest) = line.strip_prefix("@@VS-MARK ") {
            let rest = rest.trim_end().trim_end_matches("@@");
            let status = rest.split(' ').nth(1).unwrap_or("?").to_string();
            trace.push((std::mem::take(&mut cur), status));
        } else {
            cur.push_str(line);
        }
    }
    if trace.len() != n {
        return Err(format!("reference session ended early: {} of {} markers", trace.len(), n));
    }
    Ok(trace)
}

fn compare(h: &History) -> Result<Option<String>, String> {
    let a = run_through_scrut(h)?;
    let b = run_reference(h)?;
    if a.len() != b.len() {
        return Ok(Some(format!("{} results through scrut, {} in the single session", a.len(), b.len())));
    }
    let live: Vec<&Snippet> = h.snippets.iter().filter(|s| s.end != "detached").collect();
    for (i, (x, y)) in a.iter().zip(b.iter()).enumerate() {
        if x != y {
            let (xl, yl): (Vec<&str>, Vec<&str>) = (x.0.lines().collect(), y.0.lines().collect());
            let mut diff = String::new();
            for k in 0..xl.len().max(yl.len()) {
                let (p, q) = (xl.get(k).copied().unwrap_or("<missing>"), yl.get(k).copied().unwrap_or("<missing>"));
                if p != q {
                    let cut = |s: &str| s.chars().take(160).collect::<String>();
                    if p.len() > 400 && q.len() > 400 {
                        // a list of names: say which ones differ
                        let (pw, qw): (BTreeSet<&str>, BTreeSet<&str>) = (p.split(' ').collect(), q.split(' ').collect());
                        diff = format!(
                            "probe line {} (names): only per-process {:?}, only in the single session {:?}",
                            k + 1,
                            pw.difference(&qw).take(8).collect::<Vec<_>>(),
                            qw.difference(&pw).take(8).collect::<Vec<_>>()
                        );
                    } else {
                        diff = format!("probe line {}: per-process {:?} vs single session {:?}", k + 1, cut(p), cut(q));
                    }
                    break;
                }
            }
            if diff.is_empty() {
                diff = format!("status {} vs {}", x.1, y.1);
            }
            return Ok(Some(format!("after snippet #{} ({}): {}", i + 1, live[i].tag, diff)));
        }
    }
    Ok(None)
}

fn known_real<'a>(k: &'a KnownFile, h: &History, detail: &str) -> Option<&'a crate::known::Finding> {
    k.findings.iter().find(|f| {
        f.status == "known"
            && f.property == "C12"
            && match f.predicate.as_str() {
                "unset-of-inherited-variable" => {
                    h.snippets.iter().any(|s| s.tag == "inherited-unset") && detail.contains(INHERITED)
                }
                "export-n-of-inherited-variable" => {
                    h.snippets.iter().any(|s| s.tag.starts_with("inherited-export-n")) && detail.contains(INHERITED) && detail.contains("declare -x")
                }
                // T: a test case that sets its own EXIT trap replaces scrut's: what that test
                // case changed is never written, every later test case starts from older state
                "user-exit-trap" => {
                    let live: Vec<&Snippet> = h.snippets.iter().filter(|s| s.end != "detached").collect();
                    let first = live.iter().position(|s| s.tag.starts_with("trap-exit"));
                    let at = detail
                        .strip_prefix("after snippet #")
                        .and_then(|r| r.split(' ').next())
                        .and_then(|n| n.parse::<usize>().ok());
                    matches!((first, at), (Some(f), Some(a)) if a > f + 1)
                }
                "heredoc-line-looks-like-readonly-declare" => {
                    h.snippets.iter().any(|s| s.tag == "func-heredoc-declare-r") && detail.contains("looks_readonly")
                        || (h.snippets.iter().any(|s| s.tag == "func-heredoc-declare-r") && detail.contains("f_heredoc"))
                }
                _ => false,
            }
    })
}

fn minimise_history(h: &History, keep: &dyn Fn(&History) -> bool) -> History {
    let mut best = h.clone();
    let mut progress = true;
    while progress && best.snippets.len() > 1 {
        progress = false;
        for i in 0..best.snippets.len() {
            let mut c = best.clone();
            c.snippets.remove(i);
            if keep(&c) {
                best = c;
                progress = true;
                break;
            }
        }
    }
    for i in 0..best.snippets.len() {
        if best.snippets[i].end != "normal" {
            let mut c = best.clone();
            c.snippets[i].end = "normal".into();
            if keep(&c) {
                best = c;
            }
        }
    }
    best
}

pub fn run_real(prop: &str, tier: &str, seed: u64, threads: usize, known: &KnownFile) -> RealReport {
    // the variable every bash started from here inherits (finding G is about unsetting it)
    std::env::set_var(INHERITED, "inherited-value");
    // (and one whose name begins with that name: a test by prefix must not confuse the two)
    std::env::set_var(format!("{}2", INHERITED), "second-inherited-value");
    // (... and one whose name merely CONTAINS the name of a variable that is never carried)
    std::env::set_var("SUDO_UID", "1000");
    match prop {
        "C12" => run_c12(tier, seed, threads, known),
        "C13" => run_c13_conformance(tier, seed, threads),
        "C18" => run_c18_real_env(tier),
        "C05" | "C15" | "C20" => run_real_docs(prop, doc_class(prop), threads),
        "C14" => run_real_docs(prop, doc_class(prop), 1),
        _ => RealReport::default(),
    }
}

fn run_c12(tier: &str, seed: u64, threads: usize, known: &KnownFile) -> RealReport {
    let n_random = if tier == "thorough" { 12_000 } else { 500 };
    let mut hs = systematic_histories();
    for i in 0..n_random {
        // two lanes: one that may produce the known triggers and one that steers around them
        hs.push(gen_history(seed, i, i % 2 == 0));
    }
    let hs = Arc::new(hs);
    let next = Arc::new(AtomicUsize::new(0));
    let results: Arc<Mutex<Vec<(usize, Result<Option<String>, String>)>>> = Arc::new(Mutex::new(vec![]));
    let mut handles = vec![];
    for _ in 0..threads.max(1) {
        let (hs, next, results) = (hs.clone(), next.clone(), results.clone());
        handles.push(std::thread::spawn(move || loop {
            let i = next.fetch_add(1, Ordering::SeqCst);
            if i >= hs.len() {
                break;
            }
            let r = compare(&hs[i]);
            results.lock().unwrap().push((i, r));
        }));
    }
    for h in handles {
        let _ = h.join();
    }
    let mut results = Arc::try_unwrap(results).ok().unwrap().into_inner().unwrap();
    results.sort_by_key(|r| r.0);
    let mut rep = RealReport::default();
    rep.runs = hs.len() as u64;
    let mut tag_counts: BTreeMap<String, u64> = BTreeMap::new();
    let mut sigs = std::collections::BTreeSet::new();
    for h in hs.iter() {
        let sig: Vec<String> = h.snippets.iter().map(|s| format!("{}/{}", s.tag, s.end.split(':').next().unwrap_or(""))).collect();
        sigs.insert(sig.join(","));
        for s in &h.snippets {
            *tag_counts.entry(s.tag.clone()).or_insert(0) += 1;
        }
    }
    rep.signatures = sigs.into_iter().map(|s| format!("R|{}", s)).collect();
    let mut fresh: BTreeMap<String, (usize, String)> = BTreeMap::new();
    for (i, r) in &results {
        match r {
            Err(e) => rep.harness_errors.push(format!("[real {}] {}", hs[*i].id, e)),
            Ok(None) => {}
            Ok(Some(detail)) => match known_real(known, &hs[*i], detail) {
                Some(f) => {
                    let e = rep.known_hits.entry(f.id.clone()).or_insert((0, f.what.clone()));
                    e.0 += 1;
                }
                None => {
                    // class = the kind of snippet after which the sessions diverge
                    let class = detail
                        .split('(')
                        .nth(1)
                        .and_then(|s| s.split(')').next())
                        .map(|t| t.rsplit_once('-').map(|x| x.0).unwrap_or(t).to_string())
                        .unwrap_or_else(|| "state".into());
                    fresh.entry(class).or_insert((*i, detail.clone()));
                }
            },
        }
    }
    let _ = std::fs::create_dir_all(format!("{}/replays", crate::out_dir()));
    for (class, (i, detail)) in fresh.iter().take(5) {
        println!("vsim: C12/state-differs-real/{} - history {}: {}", class, hs[*i].id, detail);
        let keep = |c: &History| -> bool {
            matches!(compare(c), Ok(Some(d)) if known_real(known, c, &d).is_none())
        };
        let min = minimise_history(&hs[*i], &keep);
        // must reproduce, twice
        if !(keep(&min) && keep(&min)) {
            println!("vsim: UNSTABLE (seen once, not reproduced twice in a row after minimisation, not reported): [real history {}] {}", hs[*i].id, detail.chars().take(300).collect::<String>());
            continue;
        }
        let text = serde_json::to_string_pretty(&min).unwrap();
        let mut hsh = 0xcbf29ce484222325u64;
        for c in text.bytes() {
            hsh ^= c as u64;
            hsh = hsh.wrapping_mul(0x100000001b3);
        }
        let path = format!("{}/replays/C12-state-differs-real-{:08x}.json", crate::out_dir(), hsh as u32);
        if std::fs::write(&path, text).is_ok() {
            rep.violation_replays.push(path);
        }
    }
    rep.samples = hs
        .iter()
        .skip(40)
        .step_by((hs.len() / 3).max(1))
        .take(3)
        .map(|h| serde_json::json!({"tier": "real bash lock-step", "history": h.snippets.iter().map(|s| format!("[{}] {} => {}", s.tag, s.code, s.end)).collect::<Vec<_>>()}))
        .collect();
    rep.coverage = serde_json::json!({
        "histories": hs.len(),
        "what": "each history is run through the real StatefulExecutor (one real bash per snippet) and through one real bash session; every probe's stdout and status are compared",
        "snippet_kinds": tag_counts,
        "probes_per_snippet": probe_all().lines().count(),
    });
    // through the real binary
    let cli = run_c12_real_cli();
    rep.runs += cli.runs;
    rep.signatures.extend(cli.signatures);
    rep.harness_errors.extend(cli.harness_errors);
    rep.violation_replays.extend(cli.violation_replays);
    // histories that have no single-session reference (errexit in force): stated directly
    let docs = run_real_docs("C12", doc_class("C12"), threads);
    rep.runs += docs.runs;
    rep.signatures.extend(docs.signatures);
    rep.harness_errors.extend(docs.harness_errors);
    rep.violation_replays.extend(docs.violation_replays);
    rep
}

// ------------------------------------------------------------------ C13 stub conformance

fn octal(bytes: &[u8]) -> String {
    let mut s = String::new();
    for b in bytes {
        s.push_str(&format!("\\{:04o}", b));
    }
    s
}

/// real bash code that does what the simulated program does
fn real_code(ops: &[Op]) -> Option<String> {
    let mut s = String::new();
    for op in ops {
        match op {
            Op::Out { fd, data } => {
                if data.0.len() > 20_000 {
                    return None;
                }
                if !data.0.is_empty() {
                    s.push_str(&format!("printf '%b' '{}' >&{}\n", octal(&data.0), fd));
                }
            }
            Op::Status { code } => {
                s.push_str(&format!("(exit {})\n", code));
                return Some(s);
            }
            Op::ExitShell { code } => {
                s.push_str(&format!("exit {}\n", code));
                return Some(s);
            }
            _ => return None,
        }
    }
    s.push_str("true\n");
    Some(s)
}

fn run_c13_conformance(tier: &str, seed: u64, threads: usize) -> RealReport {
    let mut rep = RealReport::default();
    let all = crate::gen::lane_bytes(seed);
    let want = if tier == "thorough" { 600 } else { 120 };
    let cands: Vec<Scenario> = all
        .into_iter()
        .filter(|s| {
            s.tier == Tier::Lib
                && !s.lane.contains("early-exit")
                && !s.lane.contains("expr-token")
                && s.docs[0].tests.iter().all(|t| real_code(&s.sim.programs[&t.nonce]).is_some())
        })
        .collect();
    let step = (cands.len() / want).max(1);
    let sample: Vec<Scenario> = cands.into_iter().step_by(step).collect();
    let sample = Arc::new(sample);
    let next = Arc::new(AtomicUsize::new(0));
    let errs: Arc<Mutex<Vec<String>>> = Arc::new(Mutex::new(vec![]));
    let mut handles = vec![];
    for _ in 0..threads.max(1) {
        let (sample, next, errs) = (sample.clone(), next.clone(), errs.clone());
        handles.push(
            std::thread::Builder::new()
                .stack_size(1 << 28)
                .spawn(move || loop {
                    let i = next.fetch_add(1, Ordering::SeqCst);
                    if i >= sample.len() {
                        break;
                    }
                    if let Err(e) = conform_one(&sample[i]) {
                        errs.lock().unwrap().push(format!("[conformance {}] {}", sample[i].lane, e));
                    }
                })
                .unwrap(),
        );
    }
    for h in handles {
        let _ = h.join();
    }
    rep.runs = sample.len() as u64;
    rep.signatures = sample.iter().map(|s| format!("R|conf|{}", s.lane)).collect();
    run_c13_verbatim_real(seed, &mut rep);
    rep.harness_errors.extend(Arc::try_unwrap(errs).ok().unwrap().into_inner().unwrap());
    rep.coverage = serde_json::json!({
        "verbatim_expression_cases": tricky_expressions().len() * 6,
        "conformance_scenarios": sample.len(),
        "what": "the same scenario is run simulated and with real bash (printf of the same bytes); the executor's Outputs must be identical, otherwise the stub is wrong (harness error)",
    });
    rep
}

fn conform_one(sc: &Scenario) -> Result<(), String> {
    // simulated
    let sim_obs = crate::runlib::run_lib(sc);
    let sim_raw: Vec<Option<RawOut>> = sim_obs.docs.first().map(|d| d.tests.iter().map(|t| t.raw.clone()).collect()).unwrap_or_default();
    // real: same test cases, expressions replaced by equivalent bash
    let l = layout().map_err(|e| e.to_string())?;
    let doc = &sc.docs[0];
    let mut tcs = crate::runlib::build_testcases(sc, doc, &l.tmp, &l.work)?;
    for (tc, t) in tcs.iter_mut().zip(doc.tests.iter()) {
        let code = real_code(&sc.sim.programs[&t.nonce]).ok_or("not expressible")?;
        tc.shell_expression = format!(": '@vs:{}@' '@ve:{}@'\n{}", t.nonce, t.nonce, code.trim_end());
    }
    let refs: Vec<&TestCase> = tcs.iter().collect();
    let dconf = DocumentConfig {
        defaults: crate::runlib::to_tc_config(&doc.defaults),
        total_timeout: Some(std::time::Duration::from_secs(60)),
        ..DocumentConfig::empty()
    };
    let context = ContextBuilder::default()
        .work_directory(l.work.clone())
        .temp_directory(l.tmp.clone())
        .file(PathBuf::from(&doc.path))
        .config(dconf)
        .build()
        .map_err(|e| e.to_string())?;
    let executor: Box<dyn Executor> = if sc.script_mode {
        Box::new(BashScriptExecutor::new(Path::new("/bin/bash")))
    } else {
        Box::new(StatefulExecutor::new(BashRunner::stateful_generator(Path::new("/bin/bash"))))
    };
    let real = executor.execute_all(&refs, &context);
    let sim_failed = sim_obs.docs.first().map(|d| !matches!(d.exec, ExecResult::Ok)).unwrap_or(true);
    match real {
        Err(e) => {
            if sim_failed {
                return Ok(());
            }
            Err(format!("real bash run failed ({}), simulated run did not", e.to_string().lines().next().unwrap_or("")))
        }
        Ok(outs) => {
            if sim_failed {
                return Err("simulated run failed, real bash run did not".into());
            }
            for (i, (o, s)) in outs.iter().zip(sim_raw.iter()).enumerate() {
                let Some(s) = s else { continue };
                let so: &[u8] = (&o.stdout).into();
                let se: &[u8] = (&o.stderr).into();
                let code = match &o.exit_code {
                    ExitStatus::Code(c) => ExitObs::Code { code: *c },
                    _ => ExitObs::Unknown,
                };
                if so != &s.stdout.0[..] || se != &s.stderr.0[..] || code != s.exit {
                    return Err(format!(
                        "test #{}: real stdout {:?} stderr {:?} exit {:?}; simulated stdout {:?} stderr {:?} exit {:?}",
                        i + 1,
                        Bytes(so.to_vec()),
                        Bytes(se.to_vec()),
                        code,
                        s.stdout,
                        s.stderr,
                        s.exit
                    ));
                }
            }
            Ok(())
        }
    }
}

// ------------------------------------------------------------------ C13: expressions run verbatim (real bash)

#[derive(Clone, Debug, PartialEq, Eq, Serialize, Deserialize)]
pub struct ExprCase {
    pub real_history: bool,
    pub real_expr: bool,
    pub script_mode: bool,
    pub exprs: Vec<String>,
}

/// shell expressions whose effect depends on their exact text up to the last byte
fn tricky_expressions() -> Vec<&'static str> {
    vec![
        "echo plain",
        "IFS=3; (exit 30)",
        "IFS=0123456789; echo digits-in-ifs; (exit 42)",
        "set -e; unset OLDPWD; echo errexit-without-oldpwd",
        "set -eu; echo errexit-nounset",
        "cd /; unset OLDPWD; set -e; echo still-zero",
        // names the carrier template uses itself, taken (read-only) by the user
        "readonly code=5; (exit 3)",
        "declare -r code=0; echo hi; (exit 9)",
        "set -eu; unset OLDPWD; echo strict-without-oldpwd",
        "set -euo pipefail; unset OLDPWD; echo strict",
        "set -u; unset OLDPWD PWD; echo nounset-without-pwd",
        // the temporary directory is gone when the shell ends: nothing of scrut's own
        // housekeeping may show up in the recorded output
        "rm -rf \"$VS_TMP\"; echo tmp-gone",
        "rm -rf \"$VS_TMP\"; echo tmp-gone-err >&2; (exit 4)",
        "echo trailing-backslash \\",
        "printf 'a\\nb\\n' # trailing comment",
        "printf 'no-newline-at-end'",
        "cat <<EOT\nheredoc line 1\n  indented $((1+1))\nEOT",
        "cat <<'EOT'\nliteral $HOME \\ \\\\\nEOT",
        "echo 'single quote\nspans two lines'",
        "echo \"double quote\nspans $((2*3)) lines\"",
        "echo first \\\n  continued",
        "(exit 7)",
        "echo out; echo err >&2; (exit 200)",
        "true",
        "false",
        "x=5; echo $((x*2))",
        "echo \"{persist_state} {name} {shell_expression} {excluded_variables} {state_directory}\"",
        "echo '~~~~~~~~EXECDIVIDER' almost",
        "f() { return 3; }; f",
        "echo \"status was $?\"",
        "printf '%s\\n' 'a  b' \"c\td\" e\\ f",
        "echo one; echo two >&2; echo three",
        "if true; then\n  echo in-if\nfi",
        "for i in 1 2; do echo \"i=$i\"; done # done",
        "echo 'ends with semicolon';",
        "echo 'ends with ampersands' && true",
        "echo $'ansi-c \\x41\\t|'",
        "printf 'cr\\r\\nlf\\n'",
        "echo \"tab\there\"\t",
        "echo spaces-at-end   ",
        ": only a colon",
        "echo \\\\",
    ]
}

fn run_expr_reference(expr: &str) -> Result<(Vec<u8>, Vec<u8>, i32), String> {
    let l = layout().map_err(|e| e.to_string())?;
    let mut child = Command::new("/bin/bash")
        .current_dir(&l.work)
        .env("HOME", "/nonexistent-home")
        .stdin(Stdio::piped())
        .stdout(Stdio::piped())
        .stderr(Stdio::piped())
        .spawn()
        .map_err(|e| e.to_string())?;
    {
        let mut si = child.stdin.take().unwrap();
        let text = format!("{}\n", expr);
        std::thread::spawn(move || {
            let _ = si.write_all(text.as_bytes());
        });
    }
    let out = child.wait_with_output().map_err(|e| e.to_string())?;
    Ok((out.stdout, out.stderr, out.status.code().unwrap_or(-1)))
}

fn compare_exprs(c: &ExprCase) -> Result<Option<String>, String> {
    let l = layout().map_err(|e| e.to_string())?;
    let mut env: BTreeMap<String, String> = BTreeMap::new();
    env.insert("HOME".into(), "/nonexistent-home".into());
    env.insert("VS_TMP".into(), l.tmp.to_string_lossy().into_owned());
    let tcs: Vec<TestCase> = c
        .exprs
        .iter()
        .enumerate()
        .map(|(i, e)| {
            let mut config = if c.script_mode { TestCaseConfig::default_cram() } else { TestCaseConfig::default_markdown() };
            config.environment = env.clone();
            TestCase {
                title: format!("e{}", i),
                shell_expression: e.clone(),
                expectations: vec![],
                exit_code: None,
                line_number: i + 1,
                config,
            }
        })
        .collect();
    let refs: Vec<&TestCase> = tcs.iter().collect();
    let context = ContextBuilder::default()
        .work_directory(l.work.clone())
        .temp_directory(l.tmp.clone())
        .file(PathBuf::from("exprs.md"))
        .config(DocumentConfig::default_markdown())
        .build()
        .map_err(|e| e.to_string())?;
    let executor: Box<dyn Executor> = if c.script_mode {
        Box::new(BashScriptExecutor::new(Path::new("/bin/bash")))
    } else {
        Box::new(StatefulExecutor::new(BashRunner::stateful_generator(Path::new("/bin/bash"))))
    };
    let outs = match executor.execute_all(&refs, &context) {
        Ok(o) => o,
        Err(e) => {
            return Ok(Some(format!(
                "{} mode: executing {} expression(s) failed: {}",
                if c.script_mode { "single-script" } else { "per-process" },
                c.exprs.len(),
                e.to_string().lines().next().unwrap_or("")
            )))
        }
    };
    for (i, (e, o)) in c.exprs.iter().zip(outs.iter()).enumerate() {
        let (ro, re, rc) = run_expr_reference(e)?;
        let so: &[u8] = (&o.stdout).into();
        let se: &[u8] = (&o.stderr).into();
        // Markdown default: stdout and stderr apart, CR LF translated; Cram default: merged, kept
        let (want_o, want_e): (Vec<u8>, Vec<u8>) = if c.script_mode {
            let mut m = ro.clone();
            // merged order is only comparable when one of the streams is empty
            if !re.is_empty() && !ro.is_empty() {
                continue;
            }
            m.extend(&re);
            (m, vec![])
        } else {
            (crate::scn::transform(&ro, false), crate::scn::transform(&re, false))
        };
        let code = match &o.exit_code {
            ExitStatus::Code(c) => *c,
            _ => -999,
        };
        if so != &want_o[..] || se != &want_e[..] || code != rc {
            return Ok(Some(format!(
                "{} mode, expression #{} {:?}: recorded stdout {:?} stderr {:?} exit {}; bash given exactly this text prints stdout {:?} stderr {:?} and ends with {}",
                if c.script_mode { "single-script" } else { "per-process" },
                i + 1,
                e,
                Bytes(so.to_vec()),
                Bytes(se.to_vec()),
                code,
                Bytes(want_o),
                Bytes(want_e),
                rc
            )));
        }
    }
    Ok(None)
}

fn run_c13_verbatim_real(seed: u64, rep: &mut RealReport) {
    let exprs = tricky_expressions();
    let mut g = Rng::new(seed ^ 0xe8);
    let mut cases: Vec<ExprCase> = vec![];
    for script_mode in [false, true] {
        // each expression alone, first, and last in a document of three
        for (i, e) in exprs.iter().enumerate() {
            let e = e.to_string();
            let other = exprs[(i + 7) % exprs.len()].to_string();
            // (not drawn from the seed: which expressions meet in one document is the same in
            // every run - an interplay between two of them is then seen at once, not under one
            // seed in twenty)
            let third = exprs[(i + 13) % exprs.len()].to_string();
            let _ = &mut g;
            cases.push(ExprCase { real_history: false, real_expr: true, script_mode, exprs: vec![e.clone()] });
            cases.push(ExprCase { real_history: false, real_expr: true, script_mode, exprs: vec![e.clone(), other.clone(), third.clone()] });
            cases.push(ExprCase { real_history: false, real_expr: true, script_mode, exprs: vec![other, third, e] });
        }
    }
    // (in ONE shell `set -e` outlives its test case: the next failing command ends the script,
    // which is the mode's nature and not a matter of verbatim delivery)
    cases.retain(|c| !(c.script_mode && c.exprs.len() > 1 && c.exprs.iter().any(|e| e.contains("set -e"))));
    // (the reference runs every expression in a shell of its own: an expression that changes what
    // LATER ones do - IFS, shell options, the directory - may only stand last. With VERIF_SEED=1
    // `IFS=0123456789` was drawn in front of `echo $((x*2))`, whose `10` then - rightly, the
    // state carries - came out as a blank: a false alarm of this lane, found by `vp check`.)
    let changes_later_ones = |e: &str| e.contains("IFS=") || e.contains("set -") || e.contains("unset ") || e.contains("cd /") || e.contains("rm -rf") || e.contains("readonly ") || e.contains("declare -r");
    cases.retain(|c| c.exprs.iter().enumerate().all(|(i, e)| i + 1 == c.exprs.len() || !changes_later_ones(e)));
    let _ = std::fs::create_dir_all(format!("{}/replays", crate::out_dir()));
    let mut reported = 0;
    for c in &cases {
        rep.runs += 1;
        rep.signatures.push(format!("R|expr|{}|{}", c.script_mode, c.exprs.join("¦")));
        match compare_exprs(c) {
            Err(e) => rep.harness_errors.push(format!("[real expr] {}", e)),
            Ok(None) => {}
            Ok(Some(detail)) => {
                if reported >= 3 {
                    continue;
                }
                // minimise: drop expressions while it still differs, then confirm twice
                let mut best = c.clone();
                let mut progress = true;
                while progress && best.exprs.len() > 1 {
                    progress = false;
                    for k in 0..best.exprs.len() {
                        let mut t = best.clone();
                        t.exprs.remove(k);
                        if matches!(compare_exprs(&t), Ok(Some(_))) {
                            best = t;
                            progress = true;
                            break;
                        }
                    }
                }
                if !(matches!(compare_exprs(&best), Ok(Some(_))) && matches!(compare_exprs(&best), Ok(Some(_)))) {
                    println!("vsim: UNSTABLE (seen once, not reproduced twice in a row, not reported): [real expr] {}", detail.chars().take(300).collect::<String>());
                    continue;
                }
                println!("vsim: C13/expression-not-run-verbatim - {}", detail);
                let text = serde_json::to_string_pretty(&best).unwrap();
                let mut hsh = 0xcbf29ce484222325u64;
                for ch in text.bytes() {
                    hsh ^= ch as u64;
                    hsh = hsh.wrapping_mul(0x100000001b3);
                }
                let path = format!("{}/replays/C13-expression-not-run-verbatim-{:08x}.json", crate::out_dir(), hsh as u32);
                if rep.violation_replays.contains(&path) {
                    continue;
                }
                if std::fs::write(&path, text).is_ok() {
                    rep.violation_replays.push(path);
                    reported += 1;
                }
            }
        }
    }
}

// ------------------------------------------------------------------ C05 / C15: small documents with real bash
//
// The simulated shell decides by itself how a process ends; what the carrier template makes of
// a signal or of shell options (its EXIT trap runs inside the user's shell) only real bash
// shows. Strictly sequential, no schedule: every failing case is confirmed twice.

#[derive(Clone, Debug, PartialEq, Eq, Serialize, Deserialize)]
pub struct DocCase {
    pub real_doc: bool,
    pub property: String,
    pub script_mode: bool,
    pub skip_code: Option<i32>,
    /// (expression, expectation lines, expected exit code)
    pub tests: Vec<(String, Vec<String>, Option<i32>)>,
    /// "skipped": the document must be skipped | "not-success:K": test case K (0-based) and
    /// every later one must not be reported as succeeded | "codes:a,b,..": the document runs to
    /// the end and records these exit codes
    pub expect: String,
    /// variables scrut itself was started with (they reach every shell it starts): POSIXLY_CORRECT ...
    #[serde(default)]
    pub env: BTreeMap<String, String>,
    /// per-test `timeout` in milliseconds (index of the test case -> limit)
    #[serde(default)]
    pub timeout_ms: BTreeMap<usize, u64>,
}

fn check_doc_case(c: &DocCase) -> Result<Option<String>, String> {
    let l = layout().map_err(|e| e.to_string())?;
    let maker = scrut::expectation::ExpectationMaker::new(scrut::rules::registry::RuleRegistry::default());
    let mut tcs: Vec<TestCase> = vec![];
    for (i, (e, exps, code)) in c.tests.iter().enumerate() {
        let mut config = if c.script_mode { TestCaseConfig::default_cram() } else { TestCaseConfig::default_markdown() };
        config.environment.insert("HOME".into(), "/nonexistent-home".into());
        // (a value no quoting rule gets right by accident: in single-script mode the environment
        // travels as text in the script)
        config.environment.insert("VS_AWKWARD".into(), "it's a \"value\" with $HOME, `id`, a \\ and\ttabs".into());
        for (k, v) in &c.env {
            config.environment.insert(k.clone(), v.clone());
        }
        if let Some(k) = c.skip_code {
            config.skip_document_code = Some(k);
        }
        if let Some(ms) = c.timeout_ms.get(&i) {
            config.timeout = Some(std::time::Duration::from_millis(*ms));
        }
        let mut expectations = vec![];
        for line in exps {
            expectations.push(maker.parse(line).map_err(|e| format!("expectation {:?}: {}", line, e))?);
        }
        tcs.push(TestCase { title: format!("t{}", i), shell_expression: e.clone(), expectations, exit_code: *code, line_number: i + 1, config });
    }
    let refs: Vec<&TestCase> = tcs.iter().collect();
    let context = ContextBuilder::default()
        .work_directory(l.work.clone())
        .temp_directory(l.tmp.clone())
        .file(PathBuf::from("doc.md"))
        .config(if c.script_mode { DocumentConfig::default_cram() } else { DocumentConfig::default_markdown() })
        .build()
        .map_err(|e| e.to_string())?;
    let executor: Box<dyn Executor> = if c.script_mode {
        Box::new(BashScriptExecutor::new(Path::new("/bin/bash")))
    } else {
        Box::new(StatefulExecutor::new(BashRunner::stateful_generator(Path::new("/bin/bash"))))
    };
    let mode = if c.script_mode { "single-script" } else { "per-process" };
    let result = executor.execute_all(&refs, &context);
    use scrut::executors::error::ExecutionError;
    if c.expect == "skipped" {
        return Ok(match result {
            Err(ExecutionError::Skipped(_)) => None,
            Ok(outs) => Some(format!(
                "{} mode: a test case of {:?} ended with the skip code {} but the document was not skipped; recorded exit codes {:?}",
                mode,
                c.tests.iter().map(|t| &t.0).collect::<Vec<_>>(),
                c.skip_code.unwrap_or(80),
                outs.iter().map(|o| format!("{}", o.exit_code)).collect::<Vec<_>>()
            )),
            Err(e) => Some(format!("{} mode: a test case ended with the skip code {} but the document was not skipped: {}", mode, c.skip_code.unwrap_or(80), e.to_string().lines().next().unwrap_or(""))),
        });
    }
    if let Some(k) = c.expect.strip_prefix("not-success:") {
        let k: usize = k.parse().map_err(|_| "bad expect".to_string())?;
        // the premise is decided by bash itself: given exactly this text, does it die of a signal?
        // (bash ignores SIGQUIT, and a SIGINT that its foreground child survived)
        {
            use std::os::unix::process::ExitStatusExt;
            let mut child = Command::new("/bin/bash")
                .current_dir(&l.work)
                .env("HOME", "/nonexistent-home")
                .envs(&c.env)
                .stdin(Stdio::piped())
                .stdout(Stdio::null())
                .stderr(Stdio::null())
                .spawn()
                .map_err(|e| e.to_string())?;
            {
                let mut si = child.stdin.take().unwrap();
                let _ = si.write_all(format!("{}\n", c.tests[k].0).as_bytes());
            }
            let st = child.wait().map_err(|e| e.to_string())?;
            if st.signal().is_none() {
                return Ok(None);
            }
        }
        // (an execution error or a timeout is no success either)
        let Ok(outs) = result else { return Ok(None) };
        for (i, (tc, o)) in tcs.iter().zip(outs.iter()).enumerate() {
            if i >= k && o.exit_code != ExitStatus::Detached && tc.validate(o).is_ok() {
                return Ok(Some(format!(
                    "{} mode: test case #{} {:?} is reported as succeeded (recorded exit {}), although the command of test case #{} {:?} was ended by a signal",
                    mode,
                    i + 1,
                    tc.shell_expression,
                    o.exit_code,
                    k + 1,
                    c.tests[k].0
                )));
            }
        }
        return Ok(None);
    }
    if let Some(list) = c.expect.strip_prefix("codes:") {
        let want: Vec<String> = list.split(',').map(|x| x.to_string()).collect();
        return Ok(match result {
            Ok(outs) => {
                let got: Vec<String> = outs.iter().map(|o| format!("{}", o.exit_code)).collect();
                if got == want { None } else { Some(format!("{} mode: {:?} recorded exit codes {:?}, expected {:?}", mode, c.tests.iter().map(|t| &t.0).collect::<Vec<_>>(), got, want)) }
            }
            Err(e) => Some(format!("{} mode: {:?} did not run to the end: {}", mode, c.tests.iter().map(|t| &t.0).collect::<Vec<_>>(), e.to_string().lines().next().unwrap_or(""))),
        });
    }
    Err(format!("unknown expectation {:?}", c.expect))
}

fn doc_cases(prop: &str) -> Vec<DocCase> {
    let mut out = vec![];
    let t = |e: &str, exps: &[&str], code: Option<i32>| (e.to_string(), exps.iter().map(|x| x.to_string()).collect::<Vec<_>>(), code);
    match prop {
        "C05" => {
            // scrut itself started in an environment that changes how every bash behaves: each
            // expression still runs and is judged by ITS exit code
            for (k, v) in [("POSIXLY_CORRECT", "1"), ("SHELLOPTS", "posix"), ("BASH_ENV", "/nonexistent/bashrc"), ("BASH_COMPAT", "4.4")] {
                let tests = vec![t("echo one", &["one"], None), t("(exit 1)", &[], Some(1)), t("echo three; (exit 3)", &["three"], Some(3)), t("echo four", &["four"], None)];
                let env: BTreeMap<String, String> = [(k.to_string(), v.to_string())].into_iter().collect();
                out.push(DocCase { real_doc: true, property: "C05".into(), script_mode: false, skip_code: None, tests: tests.clone(), expect: "codes:0,1,3,0".into(), env: env.clone(), timeout_ms: BTreeMap::new() });
                out.push(DocCase { real_doc: true, property: "C05".into(), script_mode: true, skip_code: None, tests, expect: "codes:0,1,3,0".into(), env, timeout_ms: BTreeMap::new() });
            }
            // errexit carried from an earlier test case: every exit code is still the command's own
            for prelude in ["set -e", "set -eu", "set -euo pipefail", "set -e; set -a", "set -e; shopt -s nullglob"] {
                let tests = vec![t(&format!("{}; echo hi", prelude), &["hi"], None), t("echo two; (exit 7)", &["two"], Some(7)), t("echo three", &["three"], None), t("false", &[], Some(1)), t("echo five", &["five"], None)];
                out.push(DocCase { real_doc: true, property: "C05".into(), script_mode: false, skip_code: None, tests, expect: "codes:0,7,0,1,0".into(), env: BTreeMap::new(), timeout_ms: BTreeMap::new() });
            }
            // a command ended by a signal has no exit code: it never passes, nor does what follows
            for sig in ["TERM", "HUP", "INT", "QUIT", "KILL", "SEGV", "ABRT", "USR1", "USR2", "PIPE", "ALRM", "BUS", "FPE"] {
                for script_mode in [false, true] {
                    for (pos, shape) in [(0usize, "plain"), (1, "plain"), (0, "noexp"), (0, "subshell-parent"), (0, "expects-128")] {
                        // (SIGINT from a subshell races with bash's own rule for a SIGINT that
                        // arrives while it waits for a child: not a deterministic premise)
                        if shape == "subshell-parent" && sig == "INT" {
                            continue;
                        }
                        let signo = match sig { "HUP" => 1, "INT" => 2, "QUIT" => 3, "ABRT" => 6, "BUS" => 7, "FPE" => 8, "KILL" => 9, "USR1" => 10, "SEGV" => 11, "USR2" => 12, "PIPE" => 13, "ALRM" => 14, _ => 15 };
                        let killed = match shape {
                            "noexp" => t(&format!("kill -{} $$", sig), &[], None),
                            "subshell-parent" => t(&format!("echo before; (kill -{} $$); sleep 0.2; echo after", sig), &["before"], None),
                            "expects-128" => t(&format!("echo before; kill -{} $$; echo after", sig), &["before"], Some(128 + signo)),
                            _ => t(&format!("echo before; kill -{} $$; echo after", sig), &["before"], None),
                        };
                        let mut tests = vec![];
                        if pos == 1 {
                            tests.push(t("echo first", &["first"], None));
                        }
                        tests.push(killed);
                        tests.push(t("true", &[], None));
                        tests.push(t("echo last", &["last"], None));
                        out.push(DocCase { real_doc: true, property: "C05".into(), script_mode, skip_code: None, tests, expect: format!("not-success:{}", pos), env: BTreeMap::new(), timeout_ms: BTreeMap::new() });
                    }
                }
            }
        }
        "C12" => {
            // histories with errexit in force have no single-session reference (a failing probe
            // ends the session); what they must do is stated directly: every test case runs
            for (a, b) in [
                ("set -e; mkdir \"$PWD/gone\"; cd \"$PWD/gone\"; V=1", "rmdir \"$OLDPWD/gone\" 2>/dev/null || rmdir ../gone; V=2"),
                ("set -e; mkdir -p \"$PWD/g1/g2\"; pushd \"$PWD/g1\" >/dev/null; pushd g2 >/dev/null", "cd /; rm -rf \"${DIRSTACK[1]}\""),
                ("set -eu; mkdir \"$PWD/gone3\"; cd \"$PWD/gone3\"", "cd ..; rmdir gone3; unset OLDPWD"),
            ] {
                let tests = vec![t(a, &[], None), t(b, &[], None), t("echo in3", &["in3"], None), t("echo in4", &["in4"], None)];
                out.push(DocCase { real_doc: true, property: "C12".into(), script_mode: false, skip_code: None, tests, expect: "codes:0,0,0,0".into(), env: BTreeMap::new(), timeout_ms: BTreeMap::new() });
            }
        }
        "C14" => {
            // a command that ends at once is not reported as timed out because of what it leaves
            // running: a background job whose own streams point elsewhere holds none of the pipes
            // scrut reads (real time, with wide margins: the limit is 4 s, the job lives 6 s, the
            // command itself takes milliseconds). These cases run ONE AT A TIME: with several
            // executors forking in one process a shell of one case can inherit the pipes of another
            // (pipe + fcntl are not atomic) - and its background job then holds them; scrut itself
            // is single-threaded
            for bg in [
                "sleep 6 >/dev/null 2>&1 & echo started",
                "(sleep 6 &) >/dev/null 2>&1; echo started",
                "nohup sleep 6 >/dev/null 2>&1 </dev/null & echo started",
                "sleep 6 >/dev/null 2>&1 </dev/null & disown; echo started",
                "exec 7>/dev/null; sleep 6 >&7 2>&7 & echo started",
            ] {
                let tests = vec![t(bg, &["started"], None), t("echo after", &["after"], None)];
                let timeout_ms: BTreeMap<usize, u64> = [(0usize, 4000u64)].into_iter().collect();
                out.push(DocCase { real_doc: true, property: "C14".into(), script_mode: false, skip_code: None, tests, expect: "codes:0,0".into(), env: BTreeMap::new(), timeout_ms });
            }
        }
        "C20" => {
            // every command runs once, and the run is not given up, whatever the expressions end in
            // (what bash makes of the compiled script only real bash shows)
            for script_mode in [true, false] {
                for e in ["true \\", "echo mid \\", "echo mid # comment", "echo mid;", "echo mid &&\n  true", ": \\\n  continued \\"] {
                    let exp: Vec<&str> = if e.starts_with("echo mid") { vec!["mid"] } else { vec![] };
                    let tests = vec![t("echo first", &["first"], None), t(e, &exp, None), t("echo last", &["last"], None)];
                    out.push(DocCase { real_doc: true, property: "C20".into(), script_mode, skip_code: None, tests, expect: "codes:0,0,0".into(), env: BTreeMap::new(), timeout_ms: BTreeMap::new() });
                }
            }
        }
        "C15" => {
            // scrut itself started in an environment that changes how every bash behaves
            for (k, v) in [("POSIXLY_CORRECT", "1"), ("SHELLOPTS", "posix"), ("BASH_ENV", "/nonexistent/bashrc"), ("ENV", "/nonexistent/shrc"), ("BASH_COMPAT", "4.4")] {
                for pos in [0usize, 1, 2] {
                    let mut tests = vec![];
                    for i in 0..pos {
                        tests.push(t(&format!("echo before{}", i), &[&format!("before{}", i)], None));
                    }
                    tests.push(t("exit 80", &[], None));
                    tests.push(t("echo after", &["after"], None));
                    let env: BTreeMap<String, String> = [(k.to_string(), v.to_string())].into_iter().collect();
                    out.push(DocCase { real_doc: true, property: "C15".into(), script_mode: false, skip_code: None, tests, expect: "skipped".into(), env, timeout_ms: BTreeMap::new() });
                }
            }
            // whatever shell options are in force, the skip code skips - and only the skip code does
            let preludes = [
                "", "set -e", "set -u", "set -eu", "set -euo pipefail", "set -eu; unset OLDPWD", "cd /; unset OLDPWD; set -eu", "unset OLDPWD PWD; set -u",
                "IFS=8", "IFS=0; set -e", "trap 'echo on-err' ERR; set -E", "shopt -s inherit_errexit; set -e", "set -o posix", "set -f", "set -C", "set -a",
                "set -o pipefail; false | true", "umask 077", "exec 2>/dev/null", "PATH=/nonexistent", "ulimit -f 0", "exec >&- 2>&-", "shopt -s nullglob extglob", "set -eu; f() { return 80; }", "set -e; cd \"$(mktemp -d)\"; rmdir \"$PWD\"",
            ];
            for (pi, p) in preludes.iter().enumerate() {
                for script_mode in [false, true] {
                    // (one shell for the whole script: with its streams closed scrut's own divider
                    // lines are gone too, and scrut gives up - accepted, see section 0.2b)
                    if script_mode && p.contains(">&-") {
                        continue;
                    }
                    for (custom, code) in [(None, 80), (Some(33), 33)] {
                        let sep = if p.is_empty() { "" } else { "; " };
                        let exit_form = if pi % 2 == 0 { format!("{}{}exit {}", p, sep, code) } else { format!("{}{}(exit {})", p, sep, code) };
                        for pos in [0usize, 1] {
                            let mut tests = vec![];
                            if pos == 1 {
                                tests.push(t("echo first", &["first"], None));
                            }
                            tests.push(t(&exit_form, &[], None));
                            tests.push(t("echo after", &["after"], None));
                            out.push(DocCase { real_doc: true, property: "C15".into(), script_mode, skip_code: custom, tests, expect: "skipped".into(), env: BTreeMap::new(), timeout_ms: BTreeMap::new() });
                        }
                        // the other half: the default code does not skip when a custom one is set
                        if custom.is_some() && !script_mode && !p.contains("set -e") && !p.contains("errexit") {
                            let tests = vec![t(&format!("{}{}(exit 80)", p, sep), &[], Some(80)), t("true", &[], None)];
                            out.push(DocCase { real_doc: true, property: "C15".into(), script_mode, skip_code: custom, tests, expect: "codes:80,0".into(), env: BTreeMap::new(), timeout_ms: BTreeMap::new() });
                        }
                    }
                }
            }
        }
        _ => {}
    }
    out
}

fn run_real_docs(prop: &str, class: &str, threads: usize) -> RealReport {
    let mut rep = RealReport::default();
    let cases = Arc::new(doc_cases(prop));
    let next = Arc::new(AtomicUsize::new(0));
    let results: Arc<Mutex<Vec<(usize, Result<Option<String>, String>)>>> = Arc::new(Mutex::new(vec![]));
    let mut handles = vec![];
    for _ in 0..threads.max(1) {
        let (cases, next, results) = (cases.clone(), next.clone(), results.clone());
        handles.push(std::thread::spawn(move || loop {
            let i = next.fetch_add(1, Ordering::SeqCst);
            if i >= cases.len() {
                break;
            }
            let r = check_doc_case(&cases[i]);
            results.lock().unwrap().push((i, r));
        }));
    }
    for h in handles {
        let _ = h.join();
    }
    let mut results = Arc::try_unwrap(results).ok().unwrap().into_inner().unwrap();
    results.sort_by_key(|r| r.0);
    let _ = std::fs::create_dir_all(format!("{}/replays", crate::out_dir()));
    let mut reported = 0;
    if results.len() != cases.len() {
        rep.harness_errors.push(format!("[real doc] {} of {} cases have no result", cases.len() - results.len(), cases.len()));
    }
    for (i, r) in results {
        let c = &cases[i];
        rep.runs += 1;
        rep.signatures.push(format!("R|doc|{}|{}|{:?}|{}", c.script_mode, c.expect, c.skip_code, c.tests.iter().map(|t| t.0.clone()).collect::<Vec<_>>().join("¦")));
        if rep.samples.len() < 2 && i % 40 == 7 {
            rep.samples.push(serde_json::to_value(c).unwrap_or_default());
        }
        match r {
            Err(e) => rep.harness_errors.push(format!("[real doc] {}", e)),
            Ok(None) => {}
            Ok(Some(detail)) => {
                if reported >= 3 {
                    continue;
                }
                if !(matches!(check_doc_case(c), Ok(Some(_))) && matches!(check_doc_case(c), Ok(Some(_)))) {
                    // (real processes on a loaded machine: what cannot be shown twice more in a row
                    // is not claimed - and is no reason to distrust the rest of the run either)
                    println!("vsim: UNSTABLE (seen once, not reproduced twice in a row, not reported): {}", detail.chars().take(300).collect::<String>());
                    continue;
                }
                println!("vsim: {}/{} - {}", prop, class, detail);
                let text = serde_json::to_string_pretty(c).unwrap();
                let mut hsh = 0xcbf29ce484222325u64;
                for ch in text.bytes() {
                    hsh ^= ch as u64;
                    hsh = hsh.wrapping_mul(0x100000001b3);
                }
                let path = format!("{}/replays/{}-{}-{:08x}.json", crate::out_dir(), prop, class, hsh as u32);
                if std::fs::write(&path, text).is_ok() {
                    rep.violation_replays.push(path);
                    reported += 1;
                }
            }
        }
    }
    rep.coverage = serde_json::json!({ "real_document_cases": cases.len() });
    rep
}

pub fn doc_class(prop: &str) -> &'static str {
    match prop {
        "C05" => "passed-without-exit-code-real",
        "C12" => "state-differs-real",
        "C14" => "timeout-reported-for-finished-command-real",
        "C20" => "execution-error-without-cause-real",
        _ => "skip-code-not-honoured-real",
    }
}

pub fn replay_real(path: &str, text: &str) -> i32 {
    if text.contains("\"real_doc\": true") {
        let c: DocCase = match serde_json::from_str(text) {
            Ok(c) => c,
            Err(e) => {
                eprintln!("vsim: {}: {}", path, e);
                return 2;
            }
        };
        return match (check_doc_case(&c), check_doc_case(&c)) {
            (Ok(Some(d1)), Ok(Some(_))) => {
                println!("violation {}/{}: {}", c.property, doc_class(&c.property), d1);
                println!("VIOLATION property={} replay={}", c.property, path);
                1
            }
            (Ok(None), Ok(None)) => {
                println!("vsim: {} does not reproduce on this tree", path);
                0
            }
            (a, b) => {
                println!("vsim: replay of {} is not stable: {:?} / {:?}", path, a, b);
                2
            }
        };
    }
    if text.contains("\"real_env\": true") {
        let c: EnvCase = match serde_json::from_str(text) {
            Ok(c) => c,
            Err(e) => {
                eprintln!("vsim: {}: {}", path, e);
                return 2;
            }
        };
        return match (check_env_case(&c), check_env_case(&c)) {
            (Ok(Some(d1)), Ok(Some(_))) => {
                let (prop, class) = if c.carry { ("C12", "state-differs-real") } else { ("C18", "environment-differs-real") };
                println!("violation {}/{}: {}", prop, class, d1);
                println!("VIOLATION property={} replay={}", prop, path);
                1
            }
            (Ok(None), Ok(None)) => {
                println!("vsim: {} does not reproduce on this tree", path);
                0
            }
            (a, b) => {
                println!("vsim: replay of {} is not stable: {:?} / {:?}", path, a, b);
                2
            }
        };
    }
    if text.contains("\"real_expr\": true") {
        let c: ExprCase = match serde_json::from_str(text) {
            Ok(c) => c,
            Err(e) => {
                eprintln!("vsim: {}: {}", path, e);
                return 2;
            }
        };
        return match (compare_exprs(&c), compare_exprs(&c)) {
            (Ok(Some(d1)), Ok(Some(_))) => {
                println!("violation C13/expression-not-run-verbatim: {}", d1);
                println!("VIOLATION property=C13 replay={}", path);
                1
            }
            (Ok(None), Ok(None)) => {
                println!("vsim: {} does not reproduce on this tree", path);
                0
            }
            (a, b) => {
                println!("vsim: replay of {} is not stable: {:?} / {:?}", path, a, b);
                2
            }
        };
    }
    std::env::set_var(INHERITED, "inherited-value");
    std::env::set_var(format!("{}2", INHERITED), "second-inherited-value");
    // (... and one whose name merely CONTAINS the name of a variable that is never carried)
    std::env::set_var("SUDO_UID", "1000");
    let h: History = match serde_json::from_str(text) {
        Ok(h) => h,
        Err(e) => {
            eprintln!("vsim: {}: {}", path, e);
            return 2;
        }
    };
    let a = compare(&h);
    let b = compare(&h);
    match (a, b) {
        (Ok(Some(d1)), Ok(Some(d2))) if d1 == d2 => {
            println!("violation C12/state-differs-real: {}", d1);
            println!("VIOLATION property=C12 replay={}", path);
            1
        }
        (Ok(None), Ok(None)) => {
            println!("vsim: {} does not reproduce on this tree", path);
            0
        }
        (a, b) => {
            println!("vsim: replay of {} is not stable: {:?} / {:?}", path, a, b);
            2
        }
    }
}

// ---------------------------------------------------------------------------------------------
// C18, real bash: what a test case SEES (after the state of earlier test cases was loaded) -
// the simulated tier checks the environment scrut hands to each shell, not what the carrier
// template makes of it.

#[derive(Clone, Debug, PartialEq, Eq, Serialize, Deserialize)]
pub struct EnvCase {
    pub real_env: bool,
    /// "md" | "cram"
    pub format: String,
    /// "tmp" | "work" | "keep"
    pub dirmode: String,
    /// documents of the run; all have the same file name, in different directories
    pub n_docs: usize,
    pub n_tests: usize,
    /// test case (index) that also changes shell state, so that the state file is not trivial
    pub state_change_at: Option<usize>,
    /// how the documents are named on the command line: "abs" | "rel" | "dotdot"
    #[serde(default)]
    pub path_style: String,
    /// `--shell <a symbolic link of this name to bash>` (`rbash`, `sh`: names under which bash
    /// behaves differently - scrut starts the shell the link points to)
    #[serde(default)]
    pub shell_link: Option<String>,
    /// `--log-level <level>`
    #[serde(default)]
    pub log_level: Option<String>,
    /// this test case (Markdown only) is a detached `true`
    #[serde(default)]
    pub detached_at: Option<usize>,
    /// judge what C12 says (the state set by test case `state_change_at` is found by every later
    /// one) instead of what C18 says
    #[serde(default)]
    pub carry: bool,
}

const ENV_PROBE_VARS: &[&str] = &["SCRUT_TEST", "TESTDIR", "TESTFILE", "TESTSHELL", "TMPDIR", "LANG", "LANGUAGE", "LC_ALL", "TZ", "COLUMNS", "CDPATH", "GREP_OPTIONS"];

fn env_probe_cmd(out: &Path, extra: &str) -> String {
    let mut s = String::from("{ ");
    for v in ENV_PROBE_VARS {
        s.push_str(&format!("echo \"{}=${{{}-<unset>}}\"; ", v, v));
    }
    // (... and what a process started by the test case finds in its environment)
    for v in ENV_PROBE_VARS {
        s.push_str(&format!("echo \"env:{}=$(printenv {} || echo '<not in environment>')\"; ", v, v));
    }
    s.push_str("echo \"VS_USER=${VS_USER-<unset>}\"; echo \"VS_FN=$(type -t vs_fn)\"; ");
    s.push_str("echo \"PWD=$(pwd -P)\"; [ -d \"$TMPDIR\" ] && echo TMPDIR_IS_DIR=1; ");
    s.push_str(&format!("}} > '{}' 2>&1{}", out.display(), extra));
    s
}

fn check_env_case(c: &EnvCase) -> Result<Option<String>, String> {
    let root = tempfile::Builder::new().prefix("ve.").tempdir_in(scratch_root()).map_err(|e| e.to_string())?;
    let canon = |p: &Path| std::fs::canonicalize(p).unwrap_or_else(|_| p.to_path_buf());
    let base = canon(root.path());
    // (a third of the cases: characters in the name of the temporary directory that bash
    // would expand or end a quotation with - finding U)
    let hostile = (c.n_docs + c.n_tests) % 3 == 0;
    let tmp = base.join(if hostile { "t$HOME mp\"q`id`" } else { "tmp" });
    let probes = base.join("probes");
    let work = base.join("work");
    for d in [&tmp, &probes, &work] {
        std::fs::create_dir_all(d).map_err(|e| e.to_string())?;
    }
    let md = c.format == "md";
    let fname = if md { "same name.md" } else { "same name.t" };
    // documents
    let mut docs: Vec<(PathBuf, Vec<(usize, PathBuf)>)> = vec![];
    for d in 0..c.n_docs {
        let dir = base.join(format!("docs/d{}", d));
        std::fs::create_dir_all(&dir).map_err(|e| e.to_string())?;
        let path = dir.join(fname);
        let mut lines: Vec<String> = vec![];
        let mut tests = vec![];
        lines.push(if md { format!("# document {}", d) } else { format!("document {}", d) });
        lines.push(String::new());
        for k in 0..c.n_tests {
            let out = probes.join(format!("d{}.t{}", d, k));
            // (the last document's state-changing test case also unsets SCRUT_TEST: the next one
            // must get a fresh one all the same - finding AC)
            let extra = if c.state_change_at == Some(k) {
                if d + 1 == c.n_docs && md {
                    // (... or takes its export attribute away, or gives it a value of its own)
                    [
                        "; VS_USER=carried; vs_fn() { :; }; alias vs_al=true; unset SCRUT_TEST",
                        "; VS_USER=carried; vs_fn() { :; }; alias vs_al=true; export -n SCRUT_TEST",
                        "; VS_USER=carried; vs_fn() { :; }; alias vs_al=true; declare +x SCRUT_TEST",
                        "; VS_USER=carried; vs_fn() { :; }; alias vs_al=true; SCRUT_TEST=mine",
                    ][(c.n_docs + c.n_tests + k + if c.dirmode == "tmp" { 0 } else { 1 }) % 4]
                } else {
                    "; VS_USER=carried; vs_fn() { :; }; alias vs_al=true"
                }
            } else {
                ""
            };
            let cmd = env_probe_cmd(&out, extra);
            if md && c.detached_at == Some(k) {
                lines.push(format!("## test {} (detached)", k));
                lines.push(String::new());
                lines.push("```scrut {detached: true}".into());
                lines.push("$ true".into());
                lines.push("```".into());
                lines.push(String::new());
                continue;
            }
            if md {
                lines.push(format!("## test {}", k));
                lines.push(String::new());
                lines.push("```scrut".into());
                tests.push((lines.len() + 1, out));
                lines.push(format!("$ {}", cmd));
                lines.push("```".into());
                lines.push(String::new());
            } else {
                lines.push(format!("test {}:", k));
                tests.push((lines.len() + 1, out));
                lines.push(format!("  $ {}", cmd));
                lines.push(String::new());
            }
        }
        std::fs::write(&path, lines.join("\n") + "\n").map_err(|e| e.to_string())?;
        docs.push((path, tests));
    }
    // run the hooked binary without a scenario: everything passes through to the real system
    let mut cmd = Command::new(crate::runcli::scrut_bin());
    cmd.arg("test");
    match c.dirmode.as_str() {
        "work" => {
            cmd.arg("--work-directory").arg(&work);
        }
        "keep" => {
            cmd.arg("--keep-temporary-directories");
        }
        _ => {}
    }
    if let Some(name) = &c.shell_link {
        let dir = base.join("shells");
        std::fs::create_dir_all(&dir).map_err(|e| e.to_string())?;
        let _ = std::os::unix::fs::symlink("/bin/bash", dir.join(name));
        cmd.arg("--shell").arg(dir.join(name));
    }
    if let Some(l) = &c.log_level {
        cmd.arg("--log-level").arg(l);
    }
    // the documents as named on the command line (scrut runs in `base`)
    let given: Vec<String> = docs
        .iter()
        .enumerate()
        .map(|(d, (p, _))| match c.path_style.as_str() {
            "rel" => format!("docs/d{}/{}", d, fname),
            "dotdot" => format!("probes/../docs/d{}/{}", d, fname),
            _ => p.display().to_string(),
        })
        .collect();
    for g in &given {
        cmd.arg(g);
    }
    cmd.env_remove("SCRUT_VERIF_SCENARIO").env_remove("SCRUT_VERIF_LOG").env("TMPDIR", &tmp).env("HOME", "/nonexistent-home").current_dir(&base);
    // (scrut itself is started with values for "its" variables in half of the cases)
    if (c.n_docs + c.n_tests) % 2 == 0 {
        for (k, v) in [("COLUMNS", "132"), ("LANG", "C.UTF-8"), ("LC_ALL", "C.UTF-8"), ("TZ", "Europe/Berlin"), ("CDPATH", "/usr:/tmp"), ("GREP_OPTIONS", "--color=always"), ("TESTDIR", "/inherited/testdir"), ("TESTFILE", "inherited.md"), ("SCRUT_TEST", "inherited.md:1")] {
            cmd.env(k, v);
        }
    }
    cmd.stdin(Stdio::null()).stdout(Stdio::piped()).stderr(Stdio::piped());
    let out = cmd.output().map_err(|e| e.to_string())?;
    let mut wrong: Vec<String> = vec![];
    if out.status.code() != Some(0) {
        wrong.push(format!(
            "scrut exited with {:?}: {} {}",
            out.status.code(),
            String::from_utf8_lossy(&out.stdout).chars().take(300).collect::<String>(),
            String::from_utf8_lossy(&out.stderr).chars().take(300).collect::<String>()
        ));
    }
    let mut cwds: Vec<String> = vec![];
    for (d, (path, tests)) in docs.iter().enumerate() {
        let mut doc_pwd: Option<String> = None;
        let mut doc_tmp: Option<String> = None;
        for (k, (line, probe)) in tests.iter().enumerate() {
            let text = match std::fs::read_to_string(probe) {
                Ok(t) => t,
                Err(_) => {
                    wrong.push(format!("document {} test {}: did not run", d, k));
                    continue;
                }
            };
            let got: BTreeMap<&str, &str> = text.lines().filter_map(|l| l.split_once('=')).collect();
            let g = |k: &str| got.get(k).copied().unwrap_or("<no line>");
            if c.carry {
                // C12 through the real binary: what the state-changing test case set is found
                // by every later one of its document
                if let Some(at) = c.state_change_at {
                    if k > at && (g("VS_USER") != "carried" || g("VS_FN") != "function") {
                        wrong.push(format!(
                            "document {} probing test case #{}: finds VS_USER={:?} and vs_fn {:?}; test case #{} had set VS_USER=carried and defined the function",
                            d, k, g("VS_USER"), g("VS_FN"), at
                        ));
                    }
                }
                continue;
            }
            let mut want: Vec<(&str, String)> = vec![
                ("TESTFILE", fname.to_string()),
                ("LANG", "C".into()),
                ("LANGUAGE", "C".into()),
                ("LC_ALL", "C".into()),
                ("TZ", "GMT".into()),
                ("COLUMNS", "80".into()),
                ("CDPATH", "".into()),
                ("GREP_OPTIONS", "".into()),
            ];
            if md {
                want.push(("SCRUT_TEST", format!("{}:{}", given[d], line)));
            }
            for (key, val) in &want {
                if g(key) != val {
                    wrong.push(format!("document {} test {}: sees {}={:?}, documented {:?}", d, k, key, g(key), val));
                }
                let in_env = format!("env:{}", key);
                if g(&in_env) != val {
                    wrong.push(format!("document {} test {}: a process it starts finds {}={:?} in its environment, documented {:?}", d, k, key, g(&in_env), val));
                }
            }
            if canon(Path::new(g("TESTDIR"))) != canon(path.parent().unwrap()) {
                wrong.push(format!("document {} test {}: sees TESTDIR={:?}, the document is in {:?}", d, k, g("TESTDIR"), path.parent().unwrap()));
            }
            if canon(Path::new(g("TESTSHELL"))) != canon(Path::new("/bin/bash")) {
                wrong.push(format!("document {} test {}: sees TESTSHELL={:?}", d, k, g("TESTSHELL")));
            }
            if g("TMPDIR_IS_DIR") != "1" {
                wrong.push(format!("document {} test {}: TMPDIR={:?} is not a directory", d, k, g("TMPDIR")));
            }
            let t = canon(Path::new(g("TMPDIR")));
            let home = if c.dirmode == "work" { &work } else { &tmp };
            if !t.starts_with(home) {
                wrong.push(format!("document {} test {}: TMPDIR={:?} is outside {:?}", d, k, g("TMPDIR"), home));
            }
            match &doc_tmp {
                None => doc_tmp = Some(g("TMPDIR").to_string()),
                Some(x) if x != g("TMPDIR") => wrong.push(format!("document {} test {}: TMPDIR changes within the document ({} / {})", d, k, x, g("TMPDIR"))),
                _ => {}
            }
            match &doc_pwd {
                None => doc_pwd = Some(g("PWD").to_string()),
                Some(x) if x != g("PWD") => wrong.push(format!("document {} test {}: working directory changes within the document ({} / {})", d, k, x, g("PWD"))),
                _ => {}
            }
        }
        if let Some(p) = doc_pwd {
            if c.dirmode == "work" {
                if canon(Path::new(&p)) != work {
                    wrong.push(format!("document {}: runs in {:?} although --work-directory {:?}", d, p, work));
                }
            } else {
                if !canon(Path::new(&p)).starts_with(&tmp) {
                    wrong.push(format!("document {}: runs in {:?}, outside the temporary directory", d, p));
                }
                if cwds.contains(&p) {
                    wrong.push(format!("document {}: shares its working directory {:?} with another document", d, p));
                }
                cwds.push(p);
            }
        }
    }
    // clean-up
    let left = |p: &Path| -> Vec<String> {
        let mut v: Vec<String> = std::fs::read_dir(p).map(|r| r.filter_map(|e| e.ok()).map(|e| e.file_name().to_string_lossy().to_string()).collect()).unwrap_or_default();
        v.sort();
        v
    };
    // nothing appears next to the directories of this case either (a path that got expanded)
    let mut beside = left(&base);
    let tmp_name = tmp.file_name().map(|n| n.to_string_lossy().to_string()).unwrap_or_default();
    beside.retain(|e| e != &tmp_name && e != "probes" && e != "work" && e != "docs" && e != "shells");
    if c.carry {
        // (the directories are C18's business)
        return if wrong.is_empty() { Ok(None) } else { Ok(Some(normalise(wrong.join("; ").as_bytes(), &base))) };
    }
    if !beside.is_empty() {
        wrong.push(format!("after exit there is something new next to the temporary directory: {:?}", beside));
    }
    match c.dirmode.as_str() {
        "tmp" => {
            if !left(&tmp).is_empty() {
                wrong.push(format!("after exit the temporary directory still contains {:?}", left(&tmp)));
            }
        }
        "work" => {
            if !work.is_dir() {
                wrong.push("the --work-directory was removed".into());
            }
            if !left(&work).is_empty() || !left(&tmp).is_empty() {
                wrong.push(format!("after exit --work-directory contains {:?}, the temporary directory {:?}", left(&work), left(&tmp)));
            }
        }
        _ => {
            if left(&tmp).is_empty() {
                wrong.push("--keep-temporary-directories: nothing was kept".into());
            }
        }
    }
    if wrong.is_empty() {
        Ok(None)
    } else {
        wrong.truncate(4);
        Ok(Some(normalise(wrong.join("; ").as_bytes(), &base)))
    }
}

fn run_c18_real_env(_tier: &str) -> RealReport {
    let mut rep = RealReport::default();
    let mut cases = vec![];
    for format in ["md", "cram"] {
        for dirmode in ["tmp", "work", "keep"] {
            for n_docs in [1usize, 2, 3] {
                for (n_tests, sc) in [(1usize, None), (3, None), (3, Some(0)), (4, Some(1))] {
                    let path_style = ["abs", "rel", "dotdot"][(n_docs + n_tests + sc.unwrap_or(2)) % 3];
                    cases.push(EnvCase { real_env: true, format: format.into(), dirmode: dirmode.into(), n_docs, n_tests, state_change_at: sc, path_style: path_style.into(), shell_link: None, log_level: None, detached_at: None, carry: false });
                }
            }
        }
    }
    // the shell given as a symbolic link whose NAME would change how bash behaves; scrut at work
    // with verbose logging
    for (link, level) in [(Some("rbash"), None), (Some("sh"), None), (None, Some("debug")), (Some("rbash"), Some("trace"))] {
        for format in ["md", "cram"] {
            cases.push(EnvCase { real_env: true, format: format.into(), dirmode: "tmp".into(), n_docs: 2, n_tests: 3, state_change_at: Some(0), path_style: "abs".into(), shell_link: link.map(|x: &str| x.to_string()), log_level: level.map(|x: &str| x.to_string()), detached_at: None, carry: false });
        }
    }
    run_env_cases("C18", "environment-differs-real", cases)
}

/// C12 through the real binary (the histories drive the library): state set by one test case is
/// found by the later ones whatever scrut logs, whatever the shell is called, with a detached test
/// case in between
fn run_c12_real_cli() -> RealReport {
    let mut cases = vec![];
    for dirmode in ["tmp", "work"] {
        for (link, level, detached) in [
            (None, None, None),
            (None, Some("debug"), None),
            (None, Some("trace"), None),
            (None, None, Some(1usize)),
            (None, Some("debug"), Some(1)),
            (None, Some("trace"), Some(2)),
            (Some("rbash"), None, None),
            (Some("sh"), None, Some(1)),
        ] {
            cases.push(EnvCase { real_env: true, format: "md".into(), dirmode: dirmode.into(), n_docs: 1, n_tests: 4, state_change_at: Some(0), path_style: "abs".into(), shell_link: link.map(|x: &str| x.to_string()), log_level: level.map(|x: &str| x.to_string()), detached_at: detached, carry: true });
        }
    }
    run_env_cases("C12", "state-differs-real", cases)
}

fn run_env_cases(prop: &str, class: &str, cases: Vec<EnvCase>) -> RealReport {
    let mut rep = RealReport::default();
    let _ = std::fs::create_dir_all(format!("{}/replays", crate::out_dir()));
    let mut reported = 0;
    for c in &cases {
        rep.runs += 1;
        rep.signatures.push(format!("R|env|{}|{}|{}|{}|{:?}|{}", c.format, c.dirmode, c.n_docs, c.n_tests, c.state_change_at, c.path_style));
        match check_env_case(c) {
            Err(e) => rep.harness_errors.push(format!("[real env] {}", e)),
            Ok(None) => {}
            Ok(Some(detail)) => {
                if reported >= 3 {
                    continue;
                }
                // minimise: fewer documents, fewer test cases, no state change
                let mut best = c.clone();
                loop {
                    let mut cands = vec![];
                    if best.n_docs > 1 {
                        cands.push(EnvCase { n_docs: best.n_docs - 1, ..best.clone() });
                    }
                    if best.n_tests > 1 && best.state_change_at.map_or(true, |k| k + 1 < best.n_tests) {
                        cands.push(EnvCase { n_tests: best.n_tests - 1, ..best.clone() });
                    }
                    if best.state_change_at.is_some() {
                        cands.push(EnvCase { state_change_at: None, ..best.clone() });
                    }
                    match cands.into_iter().find(|t| matches!(check_env_case(t), Ok(Some(_)))) {
                        Some(t) => best = t,
                        None => break,
                    }
                }
                let d2 = match (check_env_case(&best), check_env_case(&best)) {
                    (Ok(Some(a)), Ok(Some(_))) => a,
                    _ => {
                        println!("vsim: UNSTABLE (seen once, not reproduced twice in a row, not reported): [real env] {}", detail.chars().take(300).collect::<String>());
                        continue;
                    }
                };
                println!("vsim: {}/{} - {}", prop, class, d2);
                let text = serde_json::to_string_pretty(&best).unwrap();
                let mut hsh = 0xcbf29ce484222325u64;
                for ch in text.bytes() {
                    hsh ^= ch as u64;
                    hsh = hsh.wrapping_mul(0x100000001b3);
                }
                let path = format!("{}/replays/{}-{}-{:08x}.json", crate::out_dir(), prop, class, hsh as u32);
                if rep.violation_replays.contains(&path) {
                    continue;
                }
                if std::fs::write(&path, text).is_ok() {
                    rep.violation_replays.push(path);
                    reported += 1;
                }
            }
        }
    }
    rep.coverage = serde_json::json!({"real_env_cases": cases.len(), "variables_probed": ENV_PROBE_VARS});
    rep
}
