//! Tier R: real bash through the pass-through seam (C12 carrier lock-step, C13 stub conformance).

use std::collections::BTreeMap;

use crate::known::KnownFile;

#[derive(Default)]
pub struct RealReport {
    pub runs: u64,
    pub signatures: Vec<String>,
    pub samples: Vec<serde_json::Value>,
    pub harness_errors: Vec<String>,
    pub known_hits: BTreeMap<String, (u64, String)>,
    pub violation_replays: Vec<String>,
    pub coverage: serde_json::Value,
}

pub fn run_real(_prop: &str, _tier: &str, _seed: u64, _threads: usize, _known: &KnownFile) -> RealReport {
    RealReport::default()
}

pub fn replay_real(_path: &str, _text: &str) -> i32 {
    2
}
