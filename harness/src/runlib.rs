//! Tier S-lib: drive the library's executors in-process against the simulator.
//! Replicates what `scrut test` does around `execute_all` (src/bin/commands/test.rs) for a
//! single document: config layering, validate per output, Skipped / Timeout mapping.

use std::collections::BTreeMap;
use std::panic::AssertUnwindSafe;
use std::path::Path;
use std::path::PathBuf;
use std::sync::Arc;
use std::time::Duration;

use scrut::config::DocumentConfig;
use scrut::config::OutputStreamControl;
use scrut::config::TestCaseConfig;
use scrut::config::TestCaseWait;
use scrut::executors::bash_runner::BashRunner;
use scrut::executors::bash_script_executor::BashScriptExecutor;
use scrut::executors::context::ContextBuilder;
use scrut::executors::error::ExecutionError;
use scrut::executors::error::ExecutionTimeout;
use scrut::executors::executor::Executor;
use scrut::executors::stateful_executor::StatefulExecutor;
use scrut::expectation::ExpectationMaker;
use scrut::output::ExitStatus;
use scrut::output::Output;
use scrut::rules::registry::RuleRegistry;
use scrut::testcase::TestCase;
use scrut::testcase::TestCaseError;
use scrut::verif_sim;
use scrut::verif_sim::scenario::*;

use crate::obs::*;
use crate::scn::*;

pub const SHELL: &str = "/bin/bash";

pub fn to_tc_config(c: &TestCfg) -> TestCaseConfig {
    TestCaseConfig {
        detached: c.detached,
        environment: c.env.clone(),
        keep_crlf: c.keep_crlf,
        output_stream: c.output_stream.map(|s| match s {
            Stream::Stdout => OutputStreamControl::Stdout,
            Stream::Stderr => OutputStreamControl::Stderr,
            Stream::Combined => OutputStreamControl::Combined,
        }),
        skip_document_code: c.skip_code,
        strip_ansi_escaping: c.strip_ansi,
        timeout: c.timeout_ns.map(Duration::from_nanos),
        wait: c.wait.as_ref().map(|w| TestCaseWait {
            timeout: Duration::from_nanos(w.timeout_ns),
            path: w.path.as_ref().map(PathBuf::from),
        }),
    }
}

thread_local! {
    static MAKER: Arc<ExpectationMaker> = Arc::new(ExpectationMaker::new(RuleRegistry::default()));
}

fn raw_of(o: &Output) -> RawOut {
    let stdout: &[u8] = (&o.stdout).into();
    let stderr: &[u8] = (&o.stderr).into();
    RawOut {
        stdout: Bytes(stdout.to_vec()),
        stderr: Bytes(stderr.to_vec()),
        exit: match &o.exit_code {
            ExitStatus::Code(c) => ExitObs::Code { code: *c },
            ExitStatus::Timeout(d) => ExitObs::Timeout {
                ns: d.as_nanos() as u64,
            },
            ExitStatus::Skipped => ExitObs::Skipped,
            ExitStatus::Detached => ExitObs::Detached,
            ExitStatus::Unknown => ExitObs::Unknown,
            // (a status this harness does not know is certainly not an exit code)
            #[allow(unreachable_patterns)]
            _ => ExitObs::Unknown,
        },
    }
}

fn report_of(r: Result<(), TestCaseError>) -> Report {
    match r {
        Ok(()) => Report::Success,
        Err(TestCaseError::MalformedOutput(_)) => Report::Malformed,
        Err(TestCaseError::InvalidExitCode { actual, expected }) => Report::InvalidExitCode { actual, expected },
        Err(TestCaseError::InternalError(_)) => Report::Internal,
        Err(TestCaseError::Timeout) => Report::Timeout,
        Err(TestCaseError::Skipped) => Report::Skipped,
        #[allow(unreachable_patterns)]
        Err(_) => Report::Internal,
    }
}

pub fn build_testcases(sc: &Scenario, doc: &Doc, tmp: &Path, work: &Path) -> Result<Vec<TestCase>, String> {
    let cram = sc.cram_semantics(doc);
    let base = to_tc_config(&format_defaults(cram));
    let doc_defaults = to_tc_config(&doc.defaults);
    let cli_cfg = to_tc_config(&sc.cli_cfg());
    let mut env: BTreeMap<String, String> = BTreeMap::new();
    env.insert("TESTDIR".into(), work.to_string_lossy().into_owned());
    env.insert("TESTFILE".into(), doc.path.clone());
    env.insert("TMPDIR".into(), tmp.to_string_lossy().into_owned());
    env.insert("TESTSHELL".into(), SHELL.into());
    for (k, v) in [
        ("LANG", "C"),
        ("LANGUAGE", "C"),
        ("LC_ALL", "C"),
        ("TZ", "GMT"),
        ("COLUMNS", "80"),
        ("CDPATH", ""),
        ("GREP_OPTIONS", ""),
    ] {
        env.insert(k.into(), v.into());
    }
    let env_ref: BTreeMap<&str, &str> = env.iter().map(|(k, v)| (k as &str, v as &str)).collect();
    let mut out = vec![];
    for (i, t) in doc.tests.iter().enumerate() {
        let mut exps = vec![];
        for l in &t.expectations {
            let e = MAKER
                .with(|m| m.parse(l))
                .map_err(|e| format!("expectation {:?} does not parse: {}", l, e))?;
            exps.push(e);
        }
        // what the parser does ...
        let parsed = to_tc_config(&t.cfg)
            .with_defaults_from(&doc_defaults)
            .with_defaults_from(&base);
        // ... and what `scrut test` does with it
        let config = parsed.with_overrides_from(&cli_cfg).with_environment(&env_ref);
        out.push(TestCase {
            title: t.title.clone(),
            shell_expression: t.expr.clone(),
            expectations: exps,
            exit_code: t.expected_code,
            line_number: 3 + i * 7,
            config,
        });
    }
    Ok(out)
}

fn scratch_root() -> PathBuf {
    let p = std::env::var("VSIM_SCRATCH").unwrap_or_else(|_| "/verif/scratch".into());
    let p = PathBuf::from(p);
    let _ = std::fs::create_dir_all(&p);
    p
}

pub fn run_lib(sc: &Scenario) -> Observation {
    let mut obs = Observation::default();
    let Some((di, doc)) = sc.docs.iter().enumerate().find(|(_, d)| d.main) else {
        obs.harness_error = Some("no main document".into());
        return obs;
    };
    let root = match tempfile::Builder::new().prefix("vl.").tempdir_in(scratch_root()) {
        Ok(r) => r,
        Err(e) => {
            obs.harness_error = Some(format!("scratch dir: {}", e));
            return obs;
        }
    };
    let work = root.path().join("work");
    let tmp = root.path().join("tmp");
    let _ = std::fs::create_dir(&work);
    let _ = std::fs::create_dir(&tmp);
    let testcases = match build_testcases(sc, doc, &tmp, &work) {
        Ok(t) => t,
        Err(e) => {
            obs.harness_error = Some(e);
            return obs;
        }
    };
    let refs: Vec<&TestCase> = testcases.iter().collect();
    // document configuration: parser default, front-matter, command line
    let total_timeout = sc
        .cli
        .timeout_seconds
        .map(Duration::from_secs)
        .or(doc.total_timeout_ns.map(Duration::from_nanos))
        .or(Some(Duration::from_secs(900)));
    let dconf = DocumentConfig {
        defaults: to_tc_config(&doc.defaults),
        total_timeout,
        ..DocumentConfig::empty()
    };
    let context = ContextBuilder::default()
        .work_directory(work.clone())
        .temp_directory(tmp.clone())
        .file(PathBuf::from(&doc.path))
        .config(dconf)
        .build()
        .expect("context");

    let mut sim = sc.sim.clone();
    sim.snapshot_dirs = vec![root.path().to_string_lossy().into_owned()];
    verif_sim::install(sim);
    let executor: Box<dyn Executor> = if sc.script_mode {
        Box::new(BashScriptExecutor::new(Path::new(SHELL)))
    } else {
        Box::new(StatefulExecutor::new(BashRunner::stateful_generator(Path::new(SHELL))))
    };
    let result = std::panic::catch_unwind(AssertUnwindSafe(|| executor.execute_all(&refs, &context)));

    let mut tests: Vec<TestObs> = doc
        .tests
        .iter()
        .map(|t| TestObs {
            nonce: t.nonce.clone(),
            results: 0,
            report: Report::None,
            further: vec![],
            raw: None,
            raw_lossy: false,
        })
        .collect();
    let exec;
    match result {
        Err(payload) => {
            exec = ExecResult::Unknown;
            if let Some(a) = payload.downcast_ref::<SimAbort>() {
                obs.sim_abort = Some(match a {
                    SimAbort::HangForever(s) => format!("hang_forever:{}", s),
                    SimAbort::EventCap => "event_cap".into(),
                });
            } else if let Some(s) = payload.downcast_ref::<String>() {
                obs.panic = Some(s.clone());
            } else if let Some(s) = payload.downcast_ref::<&str>() {
                obs.panic = Some(s.to_string());
            } else {
                obs.panic = Some("panic".into());
            }
        }
        Ok(Ok(outputs)) => {
            exec = ExecResult::Ok;
            for (i, (tc, o)) in testcases.iter().zip(outputs.iter()).enumerate() {
                tests[i].raw = Some(raw_of(o));
                if o.exit_code == ExitStatus::Detached {
                    continue;
                }
                tests[i].results = 1;
                tests[i].report = report_of(tc.validate(o));
            }
            if outputs.len() != testcases.len() {
                obs.stray_results = outputs.len().abs_diff(testcases.len()) as u32;
            }
        }
        Ok(Err(ExecutionError::Skipped(index))) => {
            exec = ExecResult::Skipped { index };
            for t in tests.iter_mut() {
                t.results = 1;
                t.report = Report::Skipped;
            }
        }
        Ok(Err(ExecutionError::Timeout(which, outputs))) => {
            exec = ExecResult::Timeout {
                total: which == ExecutionTimeout::Total,
                index: match which {
                    ExecutionTimeout::Index(i) => Some(i),
                    ExecutionTimeout::Total => None,
                },
            };
            for (i, (tc, o)) in testcases.iter().zip(outputs.iter()).enumerate() {
                tests[i].raw = Some(raw_of(o));
                // (detached test cases are not evaluated - as `scrut test` does since the repair of AF)
                if o.exit_code == ExitStatus::Detached {
                    continue;
                }
                tests[i].results = 1;
                tests[i].report = if matches!(o.exit_code, ExitStatus::Timeout(_)) {
                    Report::Timeout
                } else {
                    report_of(tc.validate(o))
                };
            }
            for t in tests.iter_mut().skip(outputs.len()) {
                t.results = 1;
                t.report = Report::Skipped;
            }
        }
        Ok(Err(ExecutionError::FailedExecution { index, error })) => {
            exec = ExecResult::Failed {
                index,
                error: format!("{:#}", error),
            };
        }
        Ok(Err(ExecutionError::AbortedExecutions { error, output: _ })) => {
            exec = ExecResult::Aborted {
                error: format!("{:#}", error),
            };
        }
    }
    obs.docs.push(DocObs { doc: di, exec, tests });

    // scrut is done: its directories go away, then the orphans run on
    let root_path = root.path().to_path_buf();
    obs.fs_exit = vec![(
        root_path.to_string_lossy().into_owned(),
        scrut::verif_sim::world::list_tree(&root_path.to_string_lossy()),
    )];
    let _ = std::fs::remove_dir_all(&work);
    let _ = std::fs::remove_dir_all(&tmp);
    // (the simulator stops a run that never ends also here: by unwinding)
    if let Err(payload) = std::panic::catch_unwind(AssertUnwindSafe(verif_sim::drain)) {
        if obs.sim_abort.is_none() {
            obs.sim_abort = Some(match payload.downcast_ref::<SimAbort>() {
                Some(SimAbort::HangForever(s)) => format!("hang_forever:{}", s),
                Some(SimAbort::EventCap) => "event_cap".into(),
                None => "drain panicked".into(),
            });
        }
    }
    if let Some(rec) = verif_sim::uninstall() {
        obs.log = rec.log;
        obs.tape = rec.tape;
        obs.end_time_ns = rec.end_time_ns;
        obs.events = rec.events;
    }
    obs.fs_after = vec![(
        root_path.to_string_lossy().into_owned(),
        scrut::verif_sim::world::list_tree(&root_path.to_string_lossy()),
    )];
    drop(root);
    obs
}
