//! What a run looked like from outside: reports per test, raw outputs, the recorded
//! history, exit status, filesystem residue.

use scrut::verif_sim::scenario::*;
use serde::Deserialize;
use serde::Serialize;

#[derive(Clone, Debug, PartialEq, Eq, Serialize, Deserialize)]
#[serde(tag = "kind", rename_all = "snake_case")]
pub enum Report {
    Success,
    InvalidExitCode { actual: i32, expected: i32 },
    Malformed,
    Timeout,
    Skipped,
    Internal,
    /// no result for this test case in the report
    None,
}

impl Report {
    pub fn short(&self) -> &'static str {
        match self {
            Report::Success => "success",
            Report::InvalidExitCode { .. } => "invalid_exit_code",
            Report::Malformed => "malformed_output",
            Report::Timeout => "timeout",
            Report::Skipped => "skipped",
            Report::Internal => "internal_error",
            Report::None => "none",
        }
    }
    pub fn is_failure(&self) -> bool {
        matches!(
            self,
            Report::InvalidExitCode { .. } | Report::Malformed | Report::Timeout | Report::Internal
        )
    }
}

#[derive(Clone, Debug, PartialEq, Eq, Serialize, Deserialize)]
#[serde(tag = "exit", rename_all = "snake_case")]
pub enum ExitObs {
    Code { code: i32 },
    Timeout { ns: u64 },
    Skipped,
    Detached,
    Unknown,
}

#[derive(Clone, Debug, PartialEq, Eq, Serialize, Deserialize)]
pub struct RawOut {
    pub stdout: Bytes,
    pub stderr: Bytes,
    pub exit: ExitObs,
}

#[derive(Clone, Debug, PartialEq, Eq, Serialize, Deserialize)]
pub struct TestObs {
    pub nonce: String,
    /// how many results the report contains for this test case
    pub results: u32,
    pub report: Report,
    /// what the second, third ... result for this test case says (`results` > 1)
    #[serde(default, skip_serializing_if = "Vec::is_empty")]
    pub further: Vec<Report>,
    /// Lib tier: the executor's Output for this test case, if it returned one.
    /// Cli tier: the `output` object of the JSON report (present for failed test cases only)
    pub raw: Option<RawOut>,
    /// `raw` went through a JSON string (lossy for bytes that are not UTF-8)
    #[serde(default)]
    pub raw_lossy: bool,
}

#[derive(Clone, Debug, PartialEq, Eq, Serialize, Deserialize)]
#[serde(tag = "exec", rename_all = "snake_case")]
pub enum ExecResult {
    Ok,
    Skipped { index: usize },
    Timeout { total: bool, index: Option<usize> },
    Failed { index: usize, error: String },
    Aborted { error: String },
    /// Cli tier: not observable separately
    Unknown,
}

#[derive(Clone, Debug, PartialEq, Eq, Serialize, Deserialize)]
pub struct DocObs {
    /// index into Scenario.docs of the executing (main) document
    pub doc: usize,
    pub exec: ExecResult,
    /// one per test case executed under this document, in execution order
    /// (prepend, own, append)
    pub tests: Vec<TestObs>,
}

#[derive(Clone, Debug, Default, PartialEq, Eq, Serialize, Deserialize)]
pub struct Summary {
    pub succeeded: Option<u32>,
    pub failed: Option<u32>,
    pub skipped: Option<u32>,
}

#[derive(Clone, Debug, Default, PartialEq, Eq, Serialize, Deserialize)]
pub struct CliInfo {
    /// the private $TMPDIR of the scrut process
    pub tmp_root: String,
    /// where the documents were written
    pub doc_root: String,
    pub work_dir: Option<String>,
    pub args: Vec<String>,
    /// nonce -> 1-based line of its `$` line in its document
    pub dollar_line: std::collections::BTreeMap<String, usize>,
    /// document path (as in the scenario) -> path as passed / as scrut sees it
    pub doc_path: std::collections::BTreeMap<String, String>,
}

#[derive(Clone, Debug, Default, Serialize, Deserialize)]
pub struct Observation {
    pub cli: Option<CliInfo>,
    /// Lib tier: listing of the run's root right after execute_all returned
    pub fs_exit: Vec<(String, Vec<String>)>,
    pub docs: Vec<DocObs>,
    pub log: Vec<LogEntry>,
    pub tape: Vec<u64>,
    pub end_time_ns: u64,
    pub events: u64,
    /// Cli tier: exit status of the scrut process (None: killed by signal / Lib tier)
    pub exit_status: Option<i32>,
    pub exit_signal: Option<i32>,
    /// the simulator stopped the run: "hang_forever:<site>" | "event_cap"
    pub sim_abort: Option<String>,
    /// scrut panicked (Lib tier)
    pub panic: Option<String>,
    pub stderr: String,
    pub stdout: String,
    /// results in the report that belong to no known test case
    pub stray_results: u32,
    pub summary: Summary,
    /// listing of the watched roots after the process is gone and orphans have drained
    pub fs_after: Vec<(String, Vec<String>)>,
    /// peer-created paths that still existed when the harness looked (before its own clean-up)
    pub peer_survivors: Vec<String>,
    /// harness-level problem (not a property violation): the run cannot be judged
    pub harness_error: Option<String>,
    /// duo run: the other process, both processes run alone, and the interleaving
    #[serde(default)]
    pub duo: Option<Box<DuoObs>>,
}

#[derive(Clone, Debug, Default, Serialize, Deserialize)]
pub struct DuoObs {
    /// the partner as it ran next to this process
    pub partner: Observation,
    /// this scenario / the partner's run alone (same scenario, same tape)
    pub solo: Observation,
    pub partner_solo: Observation,
    /// who was let go at each decision, and the point it had announced
    pub turns: Vec<u8>,
    pub labels: Vec<String>,
    /// how often the process let go was not the one let go before
    pub switches: u32,
}

impl Observation {
    pub fn confused(&self) -> Option<String> {
        self.log.iter().find_map(|e| match &e.ev {
            LogEv::Confused { pid, reason } => Some(format!("sim shell confused (pid {}): {}", pid, reason)),
            _ => None,
        })
    }
}
